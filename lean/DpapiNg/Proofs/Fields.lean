/-
  The hand-written fixed-offset decoders ARE the interpretation of the keyword → read tables that the translator
  regenerates from /repo's `unpack` / `_unpack` classmethods on every run (obligations `Gen.Fields*_eq`).
-/
import DpapiNg.Model.Fields
namespace DpapiNg
open DpapiNg.Fields

namespace Fields
theorem bind_assoc' {α β γ : Type} (x : Except PyErr α) (f : α → Except PyErr β) (g : β → Except PyErr γ) :
    Except.bind (Except.bind x f) g = Except.bind x (fun a => Except.bind (f a) g) := by
  cases x <;> rfl
theorem ok_bind {α β : Type} (x : α) (F : α → Except PyErr β) : Except.bind (Except.ok x : Except PyErr α) F = F x := rfl
theorem err_bind {α β : Type} (e : PyErr) (F : α → Except PyErr β) : Except.bind (Except.error e : Except PyErr α) F = Except.error e := rfl
theorem map_bind' {α β γ : Type} (x : Except PyErr α) (f : α → Except PyErr β) (g : β → γ) :
    Except.map g (Except.bind x f) = Except.bind x (fun a => Except.map g (f a)) := by
  cases x <;> rfl
theorem map_ok {α β : Type} (a : α) (f : α → β) : Except.map f (Except.ok a : Except PyErr α) = Except.ok (f a) := rfl
theorem map_err {α β : Type} (e : PyErr) (f : α → β) : Except.map f (Except.error e : Except PyErr α) = Except.error e := rfl
theorem ite_bind' {α β : Type} {c : Prop} [Decidable c] (a b : Except PyErr α) (F : α → Except PyErr β) :
    Except.bind (if c then a else b) F = if c then Except.bind a F else Except.bind b F := by
  split <;> rfl
theorem map_ite' {α β : Type} {c : Prop} [Decidable c] (a b : Except PyErr α) (f : α → β) :
    Except.map f (if c then a else b) = if c then Except.map f a else Except.map f b := by
  split <;> rfl
theorem ite_false_swap {α : Type} (b : Bool) (x y : α) : (if b = false then x else y) = if b = true then y else x := by
  cases b <;> rfl

/-- normalise both sides to the same chain of `Except.bind`s over the primitive reads -/
macro "fields_norm" : tactic => `(tactic| (
  simp only [evalFields, evalField, bind, pure, Except.pure, throw, throwThe, MonadExceptOf.throw, bind_assoc', ok_bind, err_bind,
    map_bind', map_ok, map_err, ite_bind', map_ite']
  simp (config := { decide := true }) only [enumOk, getNat, getRep, getBytes, List.lookup, if_true, if_false, ite_not, Bool.not_eq_true,
    String.reduceBEq, String.reduceEq, Bool.not_eq_false, ite_false_swap, Nat.not_le, gt_iff_lt, Nat.not_lt]))
end Fields

namespace Rpc

def headerFields : List (String × Field) :=
  [("version", .byte 0), ("version_minor", .byte 1), ("packet_type", .enum "PacketType" 2), ("packet_flags", .enum "PacketFlags" 3),
   ("data_rep", .sub "DataRep" 4 8), ("frag_len", .int 8 10), ("auth_len", .int 10 12), ("call_id", .int 12 16)]

def headerOfVals (vs : List (String × Val)) : Header :=
  ⟨getNat vs "version", getNat vs "version_minor", getNat vs "packet_type", getNat vs "packet_flags", getRep vs "data_rep",
   getNat vs "frag_len", getNat vs "auth_len", getNat vs "call_id"⟩

theorem headerUnpack_eq_fields (v : Bytes) : headerUnpack v = (evalFields v headerFields []).map headerOfVals := by
  unfold headerUnpack headerFields headerOfVals
  fields_norm

def secTrailerFields : List (String × Field) :=
  [("type", .enum "SecurityProvider" 0), ("level", .enum "AuthenticationLevel" 1), ("pad_length", .byte 2), ("context_id", .int 4 8),
   ("auth_value", .rest 8)]

def secTrailerOfVals (vs : List (String × Val)) : SecTrailer :=
  ⟨getNat vs "type", getNat vs "level", getNat vs "pad_length", getNat vs "context_id", getBytes vs "auth_value"⟩

theorem secTrailerUnpack_eq_fields (v : Bytes) : secTrailerUnpack v = (evalFields v secTrailerFields []).map secTrailerOfVals := by
  unfold secTrailerUnpack secTrailerFields secTrailerOfVals
  fields_norm

def syntaxFields : List (String × Field) := [("uuid", .uuid 0 16), ("version", .int 16 18), ("version_minor", .int 18 20)]

def syntaxOfVals (vs : List (String × Val)) : SyntaxId := ⟨getBytes vs "uuid", getNat vs "version", getNat vs "version_minor"⟩

theorem syntaxUnpack_eq_fields (v : Bytes) : syntaxUnpack v = (evalFields v syntaxFields []).map syntaxOfVals := by
  unfold syntaxUnpack syntaxFields syntaxOfVals
  fields_norm

def resultFields : List (String × Field) :=
  [("result", .enumInt "ContextResultCode" 0 2), ("reason", .int 2 4), ("syntax", .uuid 4 20), ("syntax_version", .int 20 24)]

def resultOfVals (vs : List (String × Val)) : ContextResult :=
  ⟨getNat vs "result", getNat vs "reason", getBytes vs "syntax", getNat vs "syntax_version"⟩

theorem resultUnpack_eq_fields (v : Bytes) : resultUnpack v = (evalFields v resultFields []).map resultOfVals := by
  unfold resultUnpack resultFields resultOfVals
  fields_norm
  by_cases h : 3 < Py.fromLE (Py.sliceN v 0 2)
  · rw [if_pos h, if_neg (by simp; omega)]
  · rw [if_neg h, if_pos (by simp; omega)]

def responseFields : List (String × Field) :=
  [("header", .param "header"), ("sec_trailer", .param "sec_trailer"), ("alloc_hint", .int 0 4), ("context_id", .int 4 6),
   ("cancel_count", .byte 6), ("stub_data", .rest 8)]

def responseOfVals (vs : List (String × Val)) : Body :=
  .response (getNat vs "alloc_hint") (getNat vs "context_id") (getNat vs "cancel_count") (getBytes vs "stub_data")

theorem responseUnpack_eq_fields (flags : Nat) (v : Bytes) :
    bodyUnpack 2 flags v = (evalFields v responseFields []).map responseOfVals := by
  unfold bodyUnpack responseFields responseOfVals
  fields_norm

def faultFields : List (String × Field) :=
  [("header", .param "header"), ("sec_trailer", .param "sec_trailer"), ("alloc_hint", .int 0 4), ("context_id", .int 4 6),
   ("cancel_count", .byte 6), ("flags", .enum "FaultFlags" 7), ("status", .int 8 12), ("stub_data", .rest 16)]

def faultOfVals (vs : List (String × Val)) : Body :=
  .fault (getNat vs "alloc_hint") (getNat vs "context_id") (getNat vs "cancel_count") (getNat vs "status") (getNat vs "flags")
    (getBytes vs "stub_data")

theorem faultUnpack_eq_fields (flags : Nat) (v : Bytes) :
    bodyUnpack 3 flags v = (evalFields v faultFields []).map faultOfVals := by
  unfold bodyUnpack faultFields faultOfVals
  fields_norm

def header2Fields : List (String × Field) :=
  [("flags", .param "flags"), ("packet_type", .enum "PacketType" 0), ("data_rep", .sub "DataRep" 4 8), ("call_id", .int 8 12),
   ("context_id", .int 12 14), ("opnum", .int 14 16)]

def header2OfVals (vs : List (String × Val)) : CmdValue :=
  .header2 (getNat vs "packet_type") (getRep vs "data_rep") (getNat vs "call_id") (getNat vs "context_id") (getNat vs "opnum")

/-- `CommandHeader2._unpack(flags, value)`: the value decoder `Command.unpack` dispatches to for command type 3 -/
theorem header2Unpack_eq_fields (v : Bytes) : cmdValueUnpack 3 v = (evalFields v header2Fields []).map header2OfVals := by
  unfold cmdValueUnpack header2Fields header2OfVals
  fields_norm

end Rpc
end DpapiNg
