/-
  Round trips of the MS-GKDI structures (unpack ∘ pack = id on well-formed values).
-/
import DpapiNg.Model.Gkdi
import DpapiNg.Proofs.Slices
namespace DpapiNg.Gkdi
open DpapiNg

theorem u32_ok (n : Nat) (h : n < 2 ^ 32) : u32 n = .ok (Py.toLE n 4) := by
  unfold u32; exact Py.toBytesLE_ok n 4 (by simpa using h)

theorem readName_ok (name rest : Bytes) (n : Nat) (hn : n = name.length + 2) (hv : utf16Valid name = true) :
    readName (name ++ ([0, 0] ++ rest)) n = .ok name := by
  unfold readName
  rw [Py.sliceTo_lit _ _ name.length (by omega)]
  simp [hv]

theorem readName_ok' (name rest : Bytes) (n : Nat) (hn : n = name.length + 2) (hv : utf16Valid name = true) :
    readName (name ++ 0 :: 0 :: rest) n = .ok name := readName_ok name rest n hn hv

/-- simp set that resolves `take`/`drop`/`sliceN` of right-nested concatenations with known lengths -/
macro "slices" "[" ts:Lean.Parser.Tactic.simpLemma,* "]" : tactic =>
  `(tactic| simp [Py.sliceN, le32, List.take_append, List.drop_append, List.take_of_length_le, List.drop_eq_nil_of_le, $ts,*])

/-! ### KDF parameters -/

theorem kdfParams_rt (name : Bytes) (hv : utf16Valid name = true) (hl : name.length + 2 < 2 ^ 32) :
    (kdfParamsPack name).bind kdfParamsUnpack = .ok name := by
  unfold kdfParamsPack
  simp only [bind, Except.bind, List.length_append, List.length_cons, List.length_nil, u32_ok _ hl, pure, Except.pure]
  generalize hL : Py.toLE (name.length + (0 + 1 + 1)) 4 = L
  have hLl : L.length = 4 := by rw [← hL]; simp
  have hLv : Py.fromLE L = name.length + 2 := by rw [← hL]; exact Py.fromLE_toLE _ 4 (by simpa using hl)
  unfold kdfParamsUnpack
  simp only [List.append_assoc]
  have s1 : Py.sliceN ([0, 0, 0, 0, 1, 0, 0, 0] ++ (L ++ ([0, 0, 0, 0] ++ (name ++ [0, 0])))) 0 8 = [0, 0, 0, 0, 1, 0, 0, 0] := by
    slices [hLl]
  have s2 : Py.sliceN ([0, 0, 0, 0, 1, 0, 0, 0] ++ (L ++ ([0, 0, 0, 0] ++ (name ++ [0, 0])))) 12 16 = [0, 0, 0, 0] := by
    slices [hLl]
  have s3 : Py.sliceN ([0, 0, 0, 0, 1, 0, 0, 0] ++ (L ++ ([0, 0, 0, 0] ++ (name ++ [0, 0])))) 8 12 = L := by
    slices [hLl]
  simp only [s1, s2, s3, ne_eq, not_true_eq_false, or_self, if_false, hLv]
  have s4 : Py.slice ([0, 0, 0, 0, 1, 0, 0, 0] ++ (L ++ ([0, 0, 0, 0] ++ (name ++ [0, 0])))) 16 (16 + ((name.length + 2 : Nat) : Int) - 2) = name := by
    rw [Py.slice_lit _ 16 (16 + ((name.length + 2 : Nat) : Int) - 2) 16 (16 + name.length) rfl (by omega)]
    have := Py.mid' ([0, 0, 0, 0, 1, 0, 0, 0] ++ L ++ [0, 0, 0, 0]) name [0, 0] 16 (16 + name.length) (by simp [hLl]) rfl
    simpa [List.append_assoc] using this
  rw [s4]; simp [hv]

/-! ### fixed-width integers, FFC DH, ECDH -/

theorem toBE_slice (p s : Bytes) (n k i : Nat) (hp : p.length = i) (h : n < 256 ^ k) :
    Py.fromBE (Py.sliceN (p ++ (Py.toBE n k ++ s)) i (i + k)) = n := by
  have : Py.sliceN (p ++ (Py.toBE n k ++ s)) i (i + k) = Py.toBE n k := by
    unfold Py.sliceN; exact Py.mid' p (Py.toBE n k) s i (i + k) hp (by simp)
  rw [this, Py.fromBE_toBE n k h]

theorem ffcParams_rt (p : FfcParams) (hk : 12 + p.keyLength + p.keyLength < 2 ^ 32) (hf : p.fieldOrder < 256 ^ p.keyLength)
    (hg : p.generator < 256 ^ p.keyLength) : (ffcParamsPack p).bind ffcParamsUnpack = .ok p := by
  obtain ⟨kl, fo, g⟩ := p
  simp only at hk hf hg
  unfold ffcParamsPack
  have hk32 : kl < 2 ^ 32 := by omega
  simp only [bind, Except.bind, Py.toBytesBE_ok _ _ hf, Py.toBytesBE_ok _ _ hg, Py.toBE_length, u32_ok _ hk32,
    u32_ok (12 + kl + kl) hk, pure, Except.pure]
  generalize hA : Py.toLE (12 + kl + kl) 4 = A
  generalize hB : Py.toLE kl 4 = B
  have lA : A.length = 4 := by rw [← hA]; simp
  have lB : B.length = 4 := by rw [← hB]; simp
  have vB : Py.fromLE B = kl := by rw [← hB]; exact Py.fromLE_toLE _ 4 (by simpa using hk32)
  unfold ffcParamsUnpack
  simp only [List.append_assoc]
  have ld : dhpm.length = 4 := rfl
  have s1 : Py.sliceN (A ++ (dhpm ++ (B ++ (Py.toBE fo kl ++ Py.toBE g kl)))) 4 8 = dhpm := by slices [lA, ld]
  have s2 : Py.sliceN (A ++ (dhpm ++ (B ++ (Py.toBE fo kl ++ Py.toBE g kl)))) 8 12 = B := by slices [lA, ld, lB]
  simp only [s1, s2, ne_eq, not_true_eq_false, if_false, vB]
  have e1 : Py.fromBE (Py.sliceN (A ++ (dhpm ++ (B ++ (Py.toBE fo kl ++ Py.toBE g kl)))) 12 (12 + kl)) = fo := by
    have := toBE_slice (A ++ dhpm ++ B) (Py.toBE g kl) fo kl 12 (by simp [lA, ld, lB] <;> omega) hf
    simpa [List.append_assoc] using this
  have e2 : Py.fromBE (Py.sliceN (A ++ (dhpm ++ (B ++ (Py.toBE fo kl ++ Py.toBE g kl)))) (12 + kl) (12 + kl + kl)) = g := by
    have := toBE_slice (A ++ dhpm ++ B ++ Py.toBE fo kl) [] g kl (12 + kl) (by simp [lA, ld, lB] <;> omega) hg
    simpa [List.append_assoc] using this
  rw [e1, e2]

theorem ffcKey_rt (k : FfcKey) (hk : k.keyLength < 2 ^ 32) (hf : k.fieldOrder < 256 ^ k.keyLength)
    (hg : k.generator < 256 ^ k.keyLength) (hp : k.publicKey < 256 ^ k.keyLength) :
    (ffcKeyPack k).bind ffcKeyUnpack = .ok k := by
  obtain ⟨kl, fo, g, pk⟩ := k
  simp only at hk hf hg hp
  unfold ffcKeyPack
  simp only [bind, Except.bind, Py.toBytesBE_ok _ _ hf, Py.toBytesBE_ok _ _ hg, Py.toBytesBE_ok _ _ hp, u32_ok _ hk, pure, Except.pure]
  generalize hB : Py.toLE kl 4 = B
  have lB : B.length = 4 := by rw [← hB]; simp
  have vB : Py.fromLE B = kl := by rw [← hB]; exact Py.fromLE_toLE _ 4 (by simpa using hk)
  unfold ffcKeyUnpack
  simp only [List.append_assoc]
  have ld : dhpb.length = 4 := rfl
  have s1 : Py.sliceN (dhpb ++ (B ++ (Py.toBE fo kl ++ (Py.toBE g kl ++ Py.toBE pk kl)))) 0 4 = dhpb := by slices [ld]
  have s2 : Py.sliceN (dhpb ++ (B ++ (Py.toBE fo kl ++ (Py.toBE g kl ++ Py.toBE pk kl)))) 4 8 = B := by slices [ld, lB]
  have hlen : ¬ (dhpb ++ (B ++ (Py.toBE fo kl ++ (Py.toBE g kl ++ Py.toBE pk kl)))).length < 8 + 3 * kl := by
    simp [ld, lB]; omega
  simp only [s1, s2, ne_eq, not_true_eq_false, if_false, vB, hlen]
  have e1 : Py.fromBE (Py.sliceN (dhpb ++ (B ++ (Py.toBE fo kl ++ (Py.toBE g kl ++ Py.toBE pk kl)))) 8 (8 + kl)) = fo := by
    have := toBE_slice (dhpb ++ B) (Py.toBE g kl ++ Py.toBE pk kl) fo kl 8 (by simp [ld, lB] <;> omega) hf
    simpa [List.append_assoc] using this
  have d1 : (dhpb ++ (B ++ (Py.toBE fo kl ++ (Py.toBE g kl ++ Py.toBE pk kl)))).drop (8 + kl) = Py.toBE g kl ++ Py.toBE pk kl := by
    have := Py.drop_prefix (dhpb ++ B ++ Py.toBE fo kl) (Py.toBE g kl ++ Py.toBE pk kl) (8 + kl) (by simp [ld, lB] <;> omega)
    simpa [List.append_assoc] using this
  rw [e1, d1]
  have e2 : Py.fromBE (Py.sliceN (Py.toBE g kl ++ Py.toBE pk kl) 0 kl) = g := by
    have := toBE_slice [] (Py.toBE pk kl) g kl 0 rfl hg
    simpa using this
  have d2 : (Py.toBE g kl ++ Py.toBE pk kl).drop kl = Py.toBE pk kl := Py.drop_prefix _ _ kl (by simp)
  rw [e2, d2]
  have e3 : Py.fromBE (Py.sliceN (Py.toBE pk kl) 0 kl) = pk := by
    have := toBE_slice [] [] pk kl 0 rfl hp
    simpa using this
  rw [e3]

theorem curveOfMagic_magic (c : Curve) : curveOfMagic (curveMagic c) = some c := by cases c <;> decide

theorem ecdhKey_rt (k : EcdhKey) (hk : k.keyLength < 2 ^ 32) (hx : k.x < 256 ^ k.keyLength) (hy : k.y < 256 ^ k.keyLength) :
    (ecdhKeyPack k).bind ecdhKeyUnpack = .ok k := by
  obtain ⟨cv, kl, x, y⟩ := k
  simp only at hk hx hy
  unfold ecdhKeyPack
  simp only [bind, Except.bind, Py.toBytesBE_ok _ _ hx, Py.toBytesBE_ok _ _ hy, u32_ok _ hk, pure, Except.pure]
  generalize hB : Py.toLE kl 4 = B
  have lB : B.length = 4 := by rw [← hB]; simp
  have vB : Py.fromLE B = kl := by rw [← hB]; exact Py.fromLE_toLE _ 4 (by simpa using hk)
  have lm : (curveMagic cv).length = 4 := by cases cv <;> rfl
  unfold ecdhKeyUnpack
  simp only [List.append_assoc]
  have s1 : Py.sliceN (curveMagic cv ++ (B ++ (Py.toBE x kl ++ Py.toBE y kl))) 0 4 = curveMagic cv := by slices [lm]
  have s2 : Py.sliceN (curveMagic cv ++ (B ++ (Py.toBE x kl ++ Py.toBE y kl))) 4 8 = B := by slices [lm, lB]
  simp only [s1, s2, curveOfMagic_magic, vB]
  have e1 : Py.fromBE (Py.sliceN (curveMagic cv ++ (B ++ (Py.toBE x kl ++ Py.toBE y kl))) 8 (8 + kl)) = x := by
    have := toBE_slice (curveMagic cv ++ B) (Py.toBE y kl) x kl 8 (by simp [lm, lB] <;> omega) hx
    simpa [List.append_assoc] using this
  have d1 : (curveMagic cv ++ (B ++ (Py.toBE x kl ++ Py.toBE y kl))).drop (8 + kl) = Py.toBE y kl := by
    have := Py.drop_prefix (curveMagic cv ++ B ++ Py.toBE x kl) (Py.toBE y kl) (8 + kl) (by simp [lm, lB] <;> omega)
    simpa [List.append_assoc] using this
  rw [e1, d1]
  have e2 : Py.fromBE (Py.sliceN (Py.toBE y kl) 0 kl) = y := by
    have := toBE_slice [] [] y kl 0 rfl hy
    simpa using this
  rw [e2]

/-! ### key identifier -/

structure KeyId.WF (k : KeyId) : Prop where
  version : k.version < 2 ^ 32
  flags : k.flags < 2 ^ 32
  l0 : k.l0 < 2 ^ 32
  l1 : k.l1 < 2 ^ 32
  l2 : k.l2 < 2 ^ 32
  rk : k.rootKeyId.length = 16
  keyInfo : k.keyInfo.length < 2 ^ 32
  domain : utf16Valid k.domainName = true ∧ k.domainName.length + 2 < 2 ^ 32
  forest : utf16Valid k.forestName = true ∧ k.forestName.length + 2 < 2 ^ 32

theorem keyId_rt (k : KeyId) (h : k.WF) : (keyIdPack k).bind keyIdUnpack = .ok k := by
  obtain ⟨h1, h2, h3, h4, h5, h6, h7, ⟨h8v, h8l⟩, ⟨h9v, h9l⟩⟩ := h
  unfold keyIdPack
  simp only [bind, Except.bind, List.length_append, List.length_cons, List.length_nil,
    u32_ok _ h1, u32_ok _ h2, u32_ok _ h3, u32_ok _ h4, u32_ok _ h5, u32_ok _ h7, u32_ok _ h8l, u32_ok _ h9l, pure, Except.pure]
  generalize hf1 : Py.toLE k.version 4 = f1
  generalize hf2 : Py.toLE k.flags 4 = f2
  generalize hf3 : Py.toLE k.l0 4 = f3
  generalize hf4 : Py.toLE k.l1 4 = f4
  generalize hf5 : Py.toLE k.l2 4 = f5
  generalize hf6 : Py.toLE k.keyInfo.length 4 = f6
  generalize hf7 : Py.toLE (k.domainName.length + (0 + 1 + 1)) 4 = f7
  generalize hf8 : Py.toLE (k.forestName.length + (0 + 1 + 1)) 4 = f8
  have l1 : f1.length = 4 := by rw [← hf1]; simp
  have l2 : f2.length = 4 := by rw [← hf2]; simp
  have l3 : f3.length = 4 := by rw [← hf3]; simp
  have l4 : f4.length = 4 := by rw [← hf4]; simp
  have l5 : f5.length = 4 := by rw [← hf5]; simp
  have l6 : f6.length = 4 := by rw [← hf6]; simp
  have l7 : f7.length = 4 := by rw [← hf7]; simp
  have l8 : f8.length = 4 := by rw [← hf8]; simp
  have v1 : Py.fromLE f1 = k.version := by rw [← hf1]; exact Py.fromLE_toLE _ 4 (by simpa using h1)
  have v2 : Py.fromLE f2 = k.flags := by rw [← hf2]; exact Py.fromLE_toLE _ 4 (by simpa using h2)
  have v3 : Py.fromLE f3 = k.l0 := by rw [← hf3]; exact Py.fromLE_toLE _ 4 (by simpa using h3)
  have v4 : Py.fromLE f4 = k.l1 := by rw [← hf4]; exact Py.fromLE_toLE _ 4 (by simpa using h4)
  have v5 : Py.fromLE f5 = k.l2 := by rw [← hf5]; exact Py.fromLE_toLE _ 4 (by simpa using h5)
  have v6 : Py.fromLE f6 = k.keyInfo.length := by rw [← hf6]; exact Py.fromLE_toLE _ 4 (by simpa using h7)
  have v7 : Py.fromLE f7 = k.domainName.length + 2 := by rw [← hf7]; exact Py.fromLE_toLE _ 4 (by simpa using h8l)
  have v8 : Py.fromLE f8 = k.forestName.length + 2 := by rw [← hf8]; exact Py.fromLE_toLE _ 4 (by simpa using h9l)
  have lk : kdsk.length = 4 := rfl
  unfold keyIdUnpack
  simp only [List.append_assoc]
  generalize hV : f1 ++ (kdsk ++ (f2 ++ (f3 ++ (f4 ++ (f5 ++ (k.rootKeyId ++ (f6 ++ (f7 ++ (f8 ++ (k.keyInfo ++ (k.domainName ++ ([0, 0] ++ (k.forestName ++ [0, 0]))))))))))))) = V
  have m : Py.sliceN V 4 8 = kdsk := by rw [← hV]; slices [l1, lk]
  have u : Py.sliceN V 24 40 = k.rootKeyId := by rw [← hV]; slices [l1, l2, l3, l4, l5, lk, h6]
  have a1 : le32 V 0 = k.version := by rw [← hV]; slices [l1, v1]
  have a2 : le32 V 8 = k.flags := by rw [← hV]; slices [l1, lk, l2, v2]
  have a3 : le32 V 12 = k.l0 := by rw [← hV]; slices [l1, lk, l2, l3, v3]
  have a4 : le32 V 16 = k.l1 := by rw [← hV]; slices [l1, lk, l2, l3, l4, v4]
  have a5 : le32 V 20 = k.l2 := by rw [← hV]; slices [l1, lk, l2, l3, l4, l5, v5]
  have a6 : le32 V 40 = k.keyInfo.length := by rw [← hV]; slices [l1, lk, l2, l3, l4, l5, h6, l6, v6]
  have a7 : le32 V 44 = k.domainName.length + 2 := by rw [← hV]; slices [l1, lk, l2, l3, l4, l5, h6, l6, l7, v7]
  have a8 : le32 V 48 = k.forestName.length + 2 := by rw [← hV]; slices [l1, lk, l2, l3, l4, l5, h6, l6, l7, l8, v8]
  have b0 : V.drop 52 = k.keyInfo ++ (k.domainName ++ ([0, 0] ++ (k.forestName ++ [0, 0]))) := by
    rw [← hV]; slices [l1, lk, l2, l3, l4, l5, h6, l6, l7, l8]
  simp only [m, u, a1, a2, a3, a4, a5, a6, a7, a8, b0, ne_eq, not_true_eq_false, if_false, uuidOf, h6, if_true, bind, Except.bind,
    List.take_left', List.drop_left']
  rw [readName_ok k.domainName (k.forestName ++ [0, 0]) _ rfl h8v]
  simp only []
  have b1 : (k.domainName ++ ([0, 0] ++ (k.forestName ++ [0, 0]))).drop (k.domainName.length + 2) = k.forestName ++ ([0, 0] ++ []) := by
    have := Py.drop_prefix (k.domainName ++ [0, 0]) (k.forestName ++ [0, 0]) (k.domainName.length + 2) (by simp)
    simpa [List.append_assoc] using this
  rw [b1, readName_ok k.forestName [] _ rfl h9v]
  rfl

/-! ### group key envelope -/

structure Envelope.WF (e : Envelope) : Prop where
  version : e.version < 2 ^ 32
  flags : e.flags < 2 ^ 32
  l0 : e.l0 < 2 ^ 32
  l1 : e.l1 < 2 ^ 32
  l2 : e.l2 < 2 ^ 32
  rk : e.rootKeyId.length = 16
  kdfAlg : utf16Valid e.kdfAlgorithm = true ∧ e.kdfAlgorithm.length + 2 < 2 ^ 32
  kdfPar : e.kdfParameters.length < 2 ^ 32
  secAlg : utf16Valid e.secretAlgorithm = true ∧ e.secretAlgorithm.length + 2 < 2 ^ 32
  secPar : e.secretParameters.length < 2 ^ 32
  priv : e.privateKeyLength < 2 ^ 32
  pub : e.publicKeyLength < 2 ^ 32
  domain : utf16Valid e.domainName = true ∧ e.domainName.length + 2 < 2 ^ 32
  forest : utf16Valid e.forestName = true ∧ e.forestName.length + 2 < 2 ^ 32
  l1Key : e.l1Key.length < 2 ^ 32
  l2Key : e.l2Key.length < 2 ^ 32

theorem envelope_pack_ok (e : Envelope) (h : e.WF) : ∃ b, envelopePack e = .ok b := by
  obtain ⟨h1, h2, h3, h4, h5, h6, ⟨_, h7⟩, h8, ⟨_, h9⟩, h10, h11, h12, ⟨_, h13⟩, ⟨_, h14⟩, h15, h16⟩ := h
  unfold envelopePack
  simp only [bind, Except.bind, List.length_append, List.length_cons, List.length_nil,
    u32_ok _ h1, u32_ok _ h2, u32_ok _ h3, u32_ok _ h4, u32_ok _ h5, u32_ok _ h7, u32_ok _ h8, u32_ok _ h9, u32_ok _ h10,
    u32_ok _ h11, u32_ok _ h12, u32_ok _ h13, u32_ok _ h14, u32_ok _ h15, u32_ok _ h16, pure, Except.pure]
  exact ⟨_, rfl⟩

theorem envelope_rt (e : Envelope) (h : e.WF) : (envelopePack e).bind envelopeUnpack = .ok e := by
  obtain ⟨h1, h2, h3, h4, h5, h6, ⟨h7v, h7⟩, h8, ⟨h9v, h9⟩, h10, h11, h12, ⟨h13v, h13⟩, ⟨h14v, h14⟩, h15, h16⟩ := h
  unfold envelopePack
  simp only [bind, Except.bind, List.length_append, List.length_cons, List.length_nil,
    u32_ok _ h1, u32_ok _ h2, u32_ok _ h3, u32_ok _ h4, u32_ok _ h5, u32_ok _ h7, u32_ok _ h8, u32_ok _ h9, u32_ok _ h10,
    u32_ok _ h11, u32_ok _ h12, u32_ok _ h13, u32_ok _ h14, u32_ok _ h15, u32_ok _ h16, pure, Except.pure]
  generalize hf1 : Py.toLE e.version 4 = f1
  generalize hf2 : Py.toLE e.flags 4 = f2
  generalize hf3 : Py.toLE e.l0 4 = f3
  generalize hf4 : Py.toLE e.l1 4 = f4
  generalize hf5 : Py.toLE e.l2 4 = f5
  generalize hf6 : Py.toLE (e.kdfAlgorithm.length + (0 + 1 + 1)) 4 = f6
  generalize hf7 : Py.toLE e.kdfParameters.length 4 = f7
  generalize hf8 : Py.toLE (e.secretAlgorithm.length + (0 + 1 + 1)) 4 = f8
  generalize hf9 : Py.toLE e.secretParameters.length 4 = f9
  generalize hf10 : Py.toLE e.privateKeyLength 4 = f10
  generalize hf11 : Py.toLE e.publicKeyLength 4 = f11
  generalize hf12 : Py.toLE e.l1Key.length 4 = f12
  generalize hf13 : Py.toLE e.l2Key.length 4 = f13
  generalize hf14 : Py.toLE (e.domainName.length + (0 + 1 + 1)) 4 = f14
  generalize hf15 : Py.toLE (e.forestName.length + (0 + 1 + 1)) 4 = f15
  have l1 : f1.length = 4 := by rw [← hf1]; simp
  have l2 : f2.length = 4 := by rw [← hf2]; simp
  have l3 : f3.length = 4 := by rw [← hf3]; simp
  have l4 : f4.length = 4 := by rw [← hf4]; simp
  have l5 : f5.length = 4 := by rw [← hf5]; simp
  have l6 : f6.length = 4 := by rw [← hf6]; simp
  have l7 : f7.length = 4 := by rw [← hf7]; simp
  have l8 : f8.length = 4 := by rw [← hf8]; simp
  have l9 : f9.length = 4 := by rw [← hf9]; simp
  have l10 : f10.length = 4 := by rw [← hf10]; simp
  have l11 : f11.length = 4 := by rw [← hf11]; simp
  have l12 : f12.length = 4 := by rw [← hf12]; simp
  have l13 : f13.length = 4 := by rw [← hf13]; simp
  have l14 : f14.length = 4 := by rw [← hf14]; simp
  have l15 : f15.length = 4 := by rw [← hf15]; simp
  have v1 : Py.fromLE f1 = e.version := by rw [← hf1]; exact Py.fromLE_toLE _ 4 (by simpa using h1)
  have v2 : Py.fromLE f2 = e.flags := by rw [← hf2]; exact Py.fromLE_toLE _ 4 (by simpa using h2)
  have v3 : Py.fromLE f3 = e.l0 := by rw [← hf3]; exact Py.fromLE_toLE _ 4 (by simpa using h3)
  have v4 : Py.fromLE f4 = e.l1 := by rw [← hf4]; exact Py.fromLE_toLE _ 4 (by simpa using h4)
  have v5 : Py.fromLE f5 = e.l2 := by rw [← hf5]; exact Py.fromLE_toLE _ 4 (by simpa using h5)
  have v6 : Py.fromLE f6 = e.kdfAlgorithm.length + 2 := by rw [← hf6]; exact Py.fromLE_toLE _ 4 (by simpa using h7)
  have v7 : Py.fromLE f7 = e.kdfParameters.length := by rw [← hf7]; exact Py.fromLE_toLE _ 4 (by simpa using h8)
  have v8 : Py.fromLE f8 = e.secretAlgorithm.length + 2 := by rw [← hf8]; exact Py.fromLE_toLE _ 4 (by simpa using h9)
  have v9 : Py.fromLE f9 = e.secretParameters.length := by rw [← hf9]; exact Py.fromLE_toLE _ 4 (by simpa using h10)
  have v10 : Py.fromLE f10 = e.privateKeyLength := by rw [← hf10]; exact Py.fromLE_toLE _ 4 (by simpa using h11)
  have v11 : Py.fromLE f11 = e.publicKeyLength := by rw [← hf11]; exact Py.fromLE_toLE _ 4 (by simpa using h12)
  have v12 : Py.fromLE f12 = e.l1Key.length := by rw [← hf12]; exact Py.fromLE_toLE _ 4 (by simpa using h15)
  have v13 : Py.fromLE f13 = e.l2Key.length := by rw [← hf13]; exact Py.fromLE_toLE _ 4 (by simpa using h16)
  have v14 : Py.fromLE f14 = e.domainName.length + 2 := by rw [← hf14]; exact Py.fromLE_toLE _ 4 (by simpa using h13)
  have v15 : Py.fromLE f15 = e.forestName.length + 2 := by rw [← hf15]; exact Py.fromLE_toLE _ 4 (by simpa using h14)
  have lk : kdsk.length = 4 := rfl
  unfold envelopeUnpack
  simp only [List.append_assoc]
  generalize hBody : e.kdfAlgorithm ++ ([0, 0] ++ (e.kdfParameters ++ (e.secretAlgorithm ++ ([0, 0] ++ (e.secretParameters ++
      (e.domainName ++ ([0, 0] ++ (e.forestName ++ ([0, 0] ++ (e.l1Key ++ e.l2Key)))))))))) = Body
  generalize hV : f1 ++ (kdsk ++ (f2 ++ (f3 ++ (f4 ++ (f5 ++ (e.rootKeyId ++ (f6 ++ (f7 ++ (f8 ++ (f9 ++ (f10 ++ (f11 ++ (f12 ++ (f13 ++
      (f14 ++ (f15 ++ Body)))))))))))))))) = V
  have m : Py.sliceN V 4 8 = kdsk := by rw [← hV]; slices [l1, lk]
  have u : Py.sliceN V 24 40 = e.rootKeyId := by rw [← hV]; slices [l1, l2, l3, l4, l5, lk, h6]
  have a1 : le32 V 0 = e.version := by rw [← hV]; slices [l1, v1]
  have a2 : le32 V 8 = e.flags := by rw [← hV]; slices [l1, lk, l2, v2]
  have a3 : le32 V 12 = e.l0 := by rw [← hV]; slices [l1, lk, l2, l3, v3]
  have a4 : le32 V 16 = e.l1 := by rw [← hV]; slices [l1, lk, l2, l3, l4, v4]
  have a5 : le32 V 20 = e.l2 := by rw [← hV]; slices [l1, lk, l2, l3, l4, l5, v5]
  have a6 : le32 V 40 = e.kdfAlgorithm.length + 2 := by rw [← hV]; slices [l1, lk, l2, l3, l4, l5, h6, l6, v6]
  have a7 : le32 V 44 = e.kdfParameters.length := by rw [← hV]; slices [l1, lk, l2, l3, l4, l5, h6, l6, l7, v7]
  have a8 : le32 V 48 = e.secretAlgorithm.length + 2 := by rw [← hV]; slices [l1, lk, l2, l3, l4, l5, h6, l6, l7, l8, v8]
  have a9 : le32 V 52 = e.secretParameters.length := by rw [← hV]; slices [l1, lk, l2, l3, l4, l5, h6, l6, l7, l8, l9, v9]
  have a10 : le32 V 56 = e.privateKeyLength := by rw [← hV]; slices [l1, lk, l2, l3, l4, l5, h6, l6, l7, l8, l9, l10, v10]
  have a11 : le32 V 60 = e.publicKeyLength := by rw [← hV]; slices [l1, lk, l2, l3, l4, l5, h6, l6, l7, l8, l9, l10, l11, v11]
  have a12 : le32 V 64 = e.l1Key.length := by rw [← hV]; slices [l1, lk, l2, l3, l4, l5, h6, l6, l7, l8, l9, l10, l11, l12, v12]
  have a13 : le32 V 68 = e.l2Key.length := by rw [← hV]; slices [l1, lk, l2, l3, l4, l5, h6, l6, l7, l8, l9, l10, l11, l12, l13, v13]
  have a14 : le32 V 72 = e.domainName.length + 2 := by
    rw [← hV]; slices [l1, lk, l2, l3, l4, l5, h6, l6, l7, l8, l9, l10, l11, l12, l13, l14, v14]
  have a15 : le32 V 76 = e.forestName.length + 2 := by
    rw [← hV]; slices [l1, lk, l2, l3, l4, l5, h6, l6, l7, l8, l9, l10, l11, l12, l13, l14, l15, v15]
  have b0 : V.drop 80 = Body := by
    rw [← hV]; slices [l1, lk, l2, l3, l4, l5, h6, l6, l7, l8, l9, l10, l11, l12, l13, l14, l15]
  simp only [m, u, a1, a2, a3, a4, a5, a6, a7, a8, a9, a10, a11, a12, a13, a14, a15, b0, ne_eq, not_true_eq_false, if_false, uuidOf, h6,
    if_true, bind, Except.bind]
  rw [← hBody]
  -- walk the body field by field
  rw [readName_ok e.kdfAlgorithm _ _ rfl h7v]
  simp only []
  have d1 : ∀ (name rest : Bytes), (name ++ ([0, 0] ++ rest)).drop (name.length + 2) = rest := by
    intro name rest
    have := Py.drop_prefix (name ++ [0, 0]) rest (name.length + 2) (by simp)
    simpa [List.append_assoc] using this
  rw [d1]
  simp only [List.take_left', List.drop_left']
  rw [readName_ok e.secretAlgorithm _ _ rfl h9v]
  simp only []
  rw [d1]
  simp only [List.take_left', List.drop_left']
  rw [readName_ok e.domainName _ _ rfl h13v]
  simp only []
  rw [d1, readName_ok e.forestName _ _ rfl h14v]
  simp only []
  rw [d1]
  simp only [List.take_left', List.drop_left', List.take_length, pure, Except.pure]

/-! ### GetKey stub -/

theorem toLE_add (n a b : Nat) : Py.toLE n (a + b) = Py.toLE n a ++ Py.toLE (n / 256 ^ a) b := by
  induction a generalizing n with
  | zero => simp [Py.toLE]
  | succ a ih =>
    have : a + 1 + b = (a + b) + 1 := by omega
    rw [this]
    simp only [Py.toLE, List.cons_append]
    rw [ih (n / 256)]
    congr 2
    rw [Nat.pow_succ, Nat.div_div_eq_div_mul, Nat.mul_comm]

theorem sliceFrom_neg4 (p s : Bytes) (hs : s.length = 4) : Py.sliceFrom (p ++ s) (-4) = s := by
  unfold Py.sliceFrom Py.clampIdx
  have h : ((-4 : Int) < 0) := by omega
  simp only [h, if_true, List.length_append, hs]
  have : ((-4 : Int) + ((p.length + 4 : Nat) : Int)).toNat = p.length := by omega
  rw [this, List.drop_left]

theorem sliceTo_neg4 (p s : Bytes) (hs : s.length = 4) : Py.sliceTo (p ++ s) (-4) = p := by
  unfold Py.sliceTo Py.clampIdx
  have h : ((-4 : Int) < 0) := by omega
  simp only [h, if_true, List.length_append, hs]
  have : ((-4 : Int) + ((p.length + 4 : Nat) : Int)).toNat = p.length := by omega
  rw [this, List.take_left]

structure GetKey.WF (g : GetKey) : Prop where
  sd : g.targetSd.length < 2 ^ 32
  rk : ∀ id, g.rootKeyId = some id → id.length = 16
  l0 : -2147483648 ≤ g.l0 ∧ g.l0 ≤ 2147483647
  l1 : -2147483648 ≤ g.l1 ∧ g.l1 ≤ 2147483647
  l2 : -2147483648 ≤ g.l2 ∧ g.l2 ≤ 2147483647

def rkPart (rk : Option Bytes) : Bytes :=
  match rk with
  | some id => [0, 0, 2, 0, 0, 0, 0, 0] ++ id
  | none => Py.zeros 8

def idsPart (g : GetKey) : Bytes :=
  Py.toLE (g.l0 % 4294967296).toNat 4 ++ Py.toLE (g.l1 % 4294967296).toNat 4 ++ Py.toLE (g.l2 % 4294967296).toNat 4

theorem getKeyPack_eq (g : GetKey) (h : g.WF) :
    getKeyPack g = .ok (Py.toLE g.targetSd.length 8 ++ Py.toLE g.targetSd.length 8 ++ g.targetSd
      ++ Py.zeros (Py.negMod g.targetSd.length 8) ++ rkPart g.rootKeyId ++ idsPart g) := by
  obtain ⟨hsd, hrk, h0, h1, h2⟩ := h
  obtain ⟨sd, rk, l0, l1, l2⟩ := g
  simp only at hsd hrk h0 h1 h2
  unfold getKeyPack
  have h8 : sd.length < 256 ^ 8 := by
    have : (256 : Nat) ^ 8 = 18446744073709551616 := by decide
    omega
  cases rk <;>
  simp only [bind, Except.bind, Py.toBytesLE_ok _ 8 h8, Py.toBytesLESigned4_ok _ h0, Py.toBytesLESigned4_ok _ h1,
    Py.toBytesLESigned4_ok _ h2, pure, Except.pure, rkPart, idsPart, List.append_assoc]

theorem getKey_rt (g : GetKey) (h : g.WF) : (getKeyPack g).bind getKeyUnpack = .ok g := by
  rw [getKeyPack_eq g h]
  obtain ⟨hsd, hrk, h0, h1, h2⟩ := h
  obtain ⟨sd, rk, l0, l1, l2⟩ := g
  simp only at hsd hrk h0 h1 h2
  simp only [Except.bind, idsPart]
  have hsplit : Py.toLE sd.length 8 = Py.toLE sd.length 4 ++ Py.toLE (sd.length / 256 ^ 4) 4 := toLE_add sd.length 4 4
  generalize hA : Py.toLE sd.length 4 = A at hsplit
  generalize hA' : Py.toLE (sd.length / 256 ^ 4) 4 = A' at hsplit
  generalize hN : Py.toLE sd.length 8 = N at hsplit
  have lA : A.length = 4 := by rw [← hA]; simp
  have lA' : A'.length = 4 := by rw [← hA']; simp
  have lN : N.length = 8 := by rw [← hN]; simp
  have vA : Py.fromLE A = sd.length := by rw [← hA]; exact Py.fromLE_toLE _ 4 (by simpa using hsd)
  generalize hP : Py.zeros (Py.negMod sd.length 8) = P
  have lP : P.length = Py.negMod sd.length 8 := by rw [← hP]; simp
  generalize hI0 : Py.toLE (l0 % 4294967296).toNat 4 = I0
  generalize hI1 : Py.toLE (l1 % 4294967296).toNat 4 = I1
  generalize hI2 : Py.toLE (l2 % 4294967296).toNat 4 = I2
  have lI0 : I0.length = 4 := by rw [← hI0]; simp
  have lI1 : I1.length = 4 := by rw [← hI1]; simp
  have lI2 : I2.length = 4 := by rw [← hI2]; simp
  have vI0 : Py.fromLESigned I0 = l0 := by rw [← hI0]; exact Py.fromLESigned4 l0 h0
  have vI1 : Py.fromLESigned I1 = l1 := by rw [← hI1]; exact Py.fromLESigned4 l1 h1
  have vI2 : Py.fromLESigned I2 = l2 := by rw [← hI2]; exact Py.fromLESigned4 l2 h2
  unfold getKeyUnpack
  simp only [List.append_assoc]
  have s1 : Py.sliceN (N ++ (N ++ (sd ++ (P ++ (rkPart rk ++ (I0 ++ (I1 ++ I2))))))) 0 4 = A := by
    rw [hsplit]; slices [lA]
  simp only [s1, vA]
  have s2 : Py.sliceN (N ++ (N ++ (sd ++ (P ++ (rkPart rk ++ (I0 ++ (I1 ++ I2))))))) 16 (16 + sd.length) = sd := by
    have := Py.mid' (N ++ N) sd (P ++ (rkPart rk ++ (I0 ++ (I1 ++ I2)))) 16 (16 + sd.length) (by simp [lN]) rfl
    simpa [Py.sliceN, List.append_assoc] using this
  have s3 : (N ++ (N ++ (sd ++ (P ++ (rkPart rk ++ (I0 ++ (I1 ++ I2))))))).drop (16 + sd.length + Py.negMod sd.length 8)
      = rkPart rk ++ (I0 ++ (I1 ++ I2)) := by
    have := Py.drop_prefix (N ++ N ++ sd ++ P) (rkPart rk ++ (I0 ++ (I1 ++ I2))) (16 + sd.length + Py.negMod sd.length 8)
      (by simp [lN, lP]; omega)
    simpa [List.append_assoc] using this
  simp only [s2, s3]
  cases rk with
  | none =>
    have z8 : Py.zeros 8 = [0, 0, 0, 0, 0, 0, 0, 0] := by decide
    simp only [rkPart, z8]
    have t1 : Py.sliceN ([0, 0, 0, 0, 0, 0, 0, 0] ++ (I0 ++ (I1 ++ I2))) 0 8 = [0, 0, 0, 0, 0, 0, 0, 0] := by slices []
    have t2 : ([0, 0, 0, 0, 0, 0, 0, 0] ++ (I0 ++ (I1 ++ I2))).drop 8 = I0 ++ (I1 ++ I2) := by slices []
    simp only [t1, if_true, t2, bind, Except.bind]
    have i0 : Py.sliceN (I0 ++ (I1 ++ I2)) 0 4 = I0 := by slices [lI0]
    have i1 : Py.sliceN (I0 ++ (I1 ++ I2)) 4 8 = I1 := by slices [lI0, lI1]
    have i2 : Py.sliceN (I0 ++ (I1 ++ I2)) 8 12 = I2 := by slices [lI0, lI1, lI2]
    simp only [i0, i1, i2, vI0, vI1, vI2]
  | some id =>
    have hid := hrk id rfl
    have z8 : Py.zeros 8 = [0, 0, 0, 0, 0, 0, 0, 0] := by decide
    simp only [rkPart, z8, List.append_assoc]
    have t1 : Py.sliceN ([0, 0, 2, 0, 0, 0, 0, 0] ++ (id ++ (I0 ++ (I1 ++ I2)))) 0 8 = [0, 0, 2, 0, 0, 0, 0, 0] := by slices []
    have t3 : Py.sliceN ([0, 0, 2, 0, 0, 0, 0, 0] ++ (id ++ (I0 ++ (I1 ++ I2)))) 8 24 = id := by slices [hid]
    have t2 : ([0, 0, 2, 0, 0, 0, 0, 0] ++ (id ++ (I0 ++ (I1 ++ I2)))).drop 24 = I0 ++ (I1 ++ I2) := by slices [hid]
    have ne : ¬ ([0, 0, 2, 0, 0, 0, 0, 0] : Bytes) = [0, 0, 0, 0, 0, 0, 0, 0] := by decide
    simp only [t1, ne, if_false, t2, t3, uuidOf, hid, if_true, bind, Except.bind, Except.map]
    have i0 : Py.sliceN (I0 ++ (I1 ++ I2)) 0 4 = I0 := by slices [lI0]
    have i1 : Py.sliceN (I0 ++ (I1 ++ I2)) 4 8 = I1 := by slices [lI0, lI1]
    have i2 : Py.sliceN (I0 ++ (I1 ++ I2)) 8 12 = I2 := by slices [lI0, lI1, lI2]
    simp only [i0, i1, i2, vI0, vI1, vI2]

/-- decoding of an NDR64 GetKey reply: pcbOut (4) + pad (4) + referent (8) + max count (8) + bytes + pad + HRESULT -/
theorem unpackResponse_ok (b ref mc pad : Bytes) (e : Envelope) (hb : b.length < 2 ^ 32) (href : ref.length = 8) (hmc : mc.length = 8)
    (he : envelopeUnpack b = .ok e) :
    getKeyUnpackResponse (Py.toLE b.length 4 ++ Py.zeros 4 ++ ref ++ mc ++ b ++ pad ++ Py.toLE 0 4) = .ok e := by
  unfold getKeyUnpackResponse
  have l0 : (Py.toLE 0 4).length = 4 := by simp
  rw [sliceFrom_neg4 _ _ l0, sliceTo_neg4 _ _ l0]
  have v0 : Py.fromLE (Py.toLE 0 4) = 0 := by decide
  simp only [v0, ne_eq, not_true_eq_false, if_false, List.append_assoc]
  generalize hL : Py.toLE b.length 4 = L
  have lL : L.length = 4 := by rw [← hL]; simp
  have vL : Py.fromLE L = b.length := by rw [← hL]; exact Py.fromLE_toLE _ 4 (by simpa using hb)
  have z4 : (Py.zeros 4).length = 4 := by simp
  have s1 : Py.sliceN (L ++ (Py.zeros 4 ++ (ref ++ (mc ++ (b ++ pad))))) 0 4 = L := by slices [lL]
  have s2 : (L ++ (Py.zeros 4 ++ (ref ++ (mc ++ (b ++ pad))))).drop 8 = ref ++ (mc ++ (b ++ pad)) := by slices [lL, z4]
  simp only [s1, s2, vL]
  have s3 : Py.sliceN (ref ++ (mc ++ (b ++ pad))) 16 (16 + b.length) = b := by
    have := Py.mid' (ref ++ mc) b pad 16 (16 + b.length) (by simp [href, hmc]) rfl
    simpa [Py.sliceN, List.append_assoc] using this
  rw [s3, he]

theorem unpackResponse_err (body : Bytes) (hr : Nat) (h0 : hr ≠ 0) (h : hr < 2 ^ 32) :
    getKeyUnpackResponse (body ++ Py.toLE hr 4) = .error .valueError := by
  unfold getKeyUnpackResponse
  have l0 : (Py.toLE hr 4).length = 4 := by simp
  rw [sliceFrom_neg4 _ _ l0]
  have v0 : Py.fromLE (Py.toLE hr 4) = hr := Py.fromLE_toLE _ 4 (by simpa using h)
  simp [v0, h0]

end DpapiNg.Gkdi
