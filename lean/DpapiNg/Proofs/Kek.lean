import DpapiNg.Proofs.GkdiRt
import DpapiNg.Proofs.PowMod
namespace DpapiNg.Gkdi
open DpapiNg

theorem bind_eq_ok {ε α β : Type} {m : Except ε α} {f : α → Except ε β} {b : β} (h : m.bind f = .ok b) :
    ∃ a, m = .ok a ∧ f a = .ok b := by
  cases m with
  | error e => simp [Except.bind] at h
  | ok a => exact ⟨a, rfl, h⟩

/-- the last two steps of `compute_kek`: SP800-56A concat KDF, then SP800-108 -/
def kekOf (C : Crypto) (alg sh : Hash) (shared : Bytes) : Bytes :=
  C.kdf alg (C.kdfConcat sh shared sha512Label kdsPublicKeyLabel kdsServiceLabel sh.digestSize) kdsServiceLabel kdsPublicKeyLabel 32

theorem dh_ne_ecdh : ecdhPrefix.isPrefixOf dhName = false := by decide

theorem computeKek_dh (C : Crypto) (alg : Hash) (priv pub : Bytes) (k : FfcKey) (hu : ffcKeyUnpack pub = .ok k)
    (hp : 0 < k.fieldOrder) (hw : k.fieldOrder ≤ 256 ^ k.keyLength) :
    computeKek C alg dhName priv pub
      = .ok (kekOf C alg .sha256 (Py.toBE (Py.powMod k.publicKey (Py.fromBE priv) k.fieldOrder) k.keyLength)) := by
  unfold computeKek
  have hne : ¬ k.fieldOrder = 0 := by omega
  have hlt : Py.powMod k.publicKey (Py.fromBE priv) k.fieldOrder < 256 ^ k.keyLength :=
    Nat.lt_of_lt_of_le (Py.powMod_lt _ _ _ hp) hw
  simp only [if_true, hu, bind, Except.bind, hne, if_false, Py.toBytesBE_ok _ _ hlt, pure, Except.pure, kekOf]

theorem computePublicKey_dh (C : Crypto) (priv peer : Bytes) (k : FfcKey) (hu : ffcKeyUnpack peer = .ok k)
    (hp : 0 < k.fieldOrder) :
    computePublicKey C dhName priv peer
      = ffcKeyPack ⟨k.keyLength, k.fieldOrder, k.generator, Py.powMod k.generator (Py.fromBE priv) k.fieldOrder⟩ := by
  unfold computePublicKey
  have hne : ¬ k.fieldOrder = 0 := by omega
  simp only [if_true, hu, bind, Except.bind, hne, if_false]

end DpapiNg.Gkdi
