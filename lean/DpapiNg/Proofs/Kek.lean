import DpapiNg.Proofs.GkdiRt
import DpapiNg.Proofs.PowMod
namespace DpapiNg.Gkdi
open DpapiNg

theorem bind_eq_ok {ε α β : Type} {m : Except ε α} {f : α → Except ε β} {b : β} (h : m.bind f = .ok b) :
    ∃ a, m = .ok a ∧ f a = .ok b := by
  cases m with
  | error e => simp [Except.bind] at h
  | ok a => exact ⟨a, rfl, h⟩

/-- the last two steps of `compute_kek`: SP800-56A concat KDF, then SP800-108 -/
def kekOf (C : Crypto) (alg sh : Hash) (shared : Bytes) : Bytes :=
  C.kdf alg (C.kdfConcat sh shared sha512Label kdsPublicKeyLabel kdsServiceLabel sh.digestSize) kdsServiceLabel kdsPublicKeyLabel 32

theorem dh_ne_ecdh : ecdhPrefix.isPrefixOf dhName = false := by decide

/-- the group check added by the fix: the root key's parameters are absent, or name the key's own p and g -/
def GroupOk (sp : Bytes) (k : FfcKey) : Prop :=
  sp = [] ∨ ∃ q, ffcParamsUnpack sp = .ok q ∧ q.fieldOrder = k.fieldOrder ∧ q.generator = k.generator

theorem computeKek_dh (C : Crypto) (alg : Hash) (sp priv pub : Bytes) (k : FfcKey) (hu : ffcKeyUnpack pub = .ok k)
    (hsp : GroupOk sp k) (hy : 1 < k.publicKey ∧ k.publicKey < k.fieldOrder - 1) (hw : k.fieldOrder ≤ 256 ^ k.keyLength) :
    computeKek C alg dhName sp priv pub
      = .ok (kekOf C alg .sha256 (Py.toBE (Py.powMod k.publicKey (Py.fromBE priv) k.fieldOrder) k.keyLength)) := by
  unfold computeKek
  have hp : 0 < k.fieldOrder := by omega
  have hne : ¬ k.fieldOrder = 0 := by omega
  have hlt : Py.powMod k.publicKey (Py.fromBE priv) k.fieldOrder < 256 ^ k.keyLength :=
    Nat.lt_of_lt_of_le (Py.powMod_lt _ _ _ hp) hw
  have hyn : ¬ ¬ (1 < k.publicKey ∧ k.publicKey < k.fieldOrder - 1) := fun h => h hy
  rcases hsp with rfl | ⟨q, hq, h1, h2⟩
  · simp only [if_true, hu, bind, Except.bind, ne_eq, not_true_eq_false, if_false, hyn, hne, Py.toBytesBE_ok _ _ hlt, pure, Except.pure, kekOf]
  · by_cases hnil : sp = []
    · subst hnil
      simp only [if_true, hu, bind, Except.bind, ne_eq, not_true_eq_false, if_false, hyn, hne, Py.toBytesBE_ok _ _ hlt, pure, Except.pure, kekOf]
    · have hor : ¬ (k.fieldOrder ≠ q.fieldOrder ∨ k.generator ≠ q.generator) := by simp [h1, h2]
      simp only [if_true, hu, bind, Except.bind, ne_eq, hnil, not_false_eq_true, hq, hor, if_false, hyn, hne, Py.toBytesBE_ok _ _ hlt, pure, Except.pure, kekOf]

theorem computePublicKey_dh (C : Crypto) (priv peer : Bytes) (k : FfcKey) (hu : ffcKeyUnpack peer = .ok k)
    (hp : 0 < k.fieldOrder) :
    computePublicKey C dhName priv peer
      = ffcKeyPack ⟨k.keyLength, k.fieldOrder, k.generator, Py.powMod k.generator (Py.fromBE priv) k.fieldOrder⟩ := by
  unfold computePublicKey
  have hne : ¬ k.fieldOrder = 0 := by omega
  simp only [if_true, hu, bind, Except.bind, hne, if_false]

end DpapiNg.Gkdi
