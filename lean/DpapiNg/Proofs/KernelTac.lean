/-
  The tactic that discharges generated kernel obligations.  It is deliberately insensitive
  to harmless rewrites of the source expression: `omega` decides the linear arithmetic
  (with `/` and `%` by literals) outright; a float quotient `int(a / b)` is first replaced
  by the exact quotient using `trueDivTrunc_small`, whose side conditions (divisor < 2^49,
  quotient < 32) `omega` must establish — they are false for the L0 expression, so a
  regression to `int(t / Y)` there cannot be discharged.
-/
import DpapiNg.Model.Py
import DpapiNg.Proofs.TrueDiv
namespace DpapiNg

theorem Py.ceilDiv8_eq (n : Nat) : Py.ceilDiv8 n = (n + 7) / 8 := rfl

macro "kernel_tac" : tactic => `(tactic| first
  | omega
  | (simp only [Py.negMod, Py.ceilDiv8_eq]; omega)
  | (rw [Py.trueDivTrunc_small _ _ (by omega) (by omega) (by omega)]; omega)
  | (constructor <;> intro h <;> omega)
  | (simp only [Py.negMod, Py.ceilDiv8_eq, ge_iff_le, gt_iff_lt, ne_eq]; omega)
  | decide)

end DpapiNg
