/-
  Facts that connect generated kernels (plain arithmetic conditions read off the source)
  with model functions that are not themselves arithmetic expressions.
-/
import DpapiNg.Model.Asn1
namespace DpapiNg.Kernels
open DpapiNg.Asn1

/-- the model takes the short form exactly below 128 -/
theorem shortForm_iff (n : Nat) : (lengthOctets n = [n]) ↔ n < 128 := by
  unfold lengthOctets
  constructor
  · intro h
    by_cases hn : n < 128
    · exact hn
    · simp only [hn, if_false] at h
      have := congrArg List.length h
      simp only [List.length_cons, List.length_reverse, List.length_singleton, List.length_nil] at this
      have hp : 0 < (minLE n).length := by unfold minLE; split <;> simp <;> omega
      omega
  · intro h; simp [h]

end DpapiNg.Kernels
