/-
  The hand-written `pack` models ARE the interpretation of the byte layouts that the translator regenerates
  from /repo's `b"".join([...])` expressions on every run (obligations `Gen.Layout*_eq : Gen.Layout* = <layout below>`).
  Field names are the Python ones; `utf16z:x` is `(self.x + "\0").encode("utf-16-le")`, `uuid_le:x` is `self.x.bytes_le`,
  `pack:x` is `self.x.pack()`, `optpack:x` is `self.x.pack() if self.x else b""`, `opt_uuid_le:x` likewise for a UUID.
-/
import DpapiNg.Model.Layout
import DpapiNg.Model.Gkdi
import DpapiNg.Model.Rpc
import DpapiNg.Model.SecDesc
import DpapiNg.Proofs.Slices
namespace DpapiNg
open DpapiNg.Layout

namespace Gkdi

def envelopeLayout : List Item :=
  [.int "version" 4, .bytes "magic", .int "flags" 4, .int "l0" 4, .int "l1" 4, .int "l2" 4, .bytes "uuid_le:root_key_identifier",
   .lenOf "utf16z:kdf_algorithm" 4, .lenOf "kdf_parameters" 4, .lenOf "utf16z:secret_algorithm" 4, .lenOf "secret_parameters" 4,
   .int "private_key_length" 4, .int "public_key_length" 4, .lenOf "l1_key" 4, .lenOf "l2_key" 4,
   .lenOf "utf16z:domain_name" 4, .lenOf "utf16z:forest_name" 4,
   .bytes "utf16z:kdf_algorithm", .bytes "kdf_parameters", .bytes "utf16z:secret_algorithm", .bytes "secret_parameters",
   .bytes "utf16z:domain_name", .bytes "utf16z:forest_name", .bytes "l1_key", .bytes "l2_key"]

def envelopeEnv (e : Envelope) : Env where
  ints f := if f = "version" then e.version else if f = "flags" then e.flags else if f = "l0" then e.l0 else if f = "l1" then e.l1
    else if f = "l2" then e.l2 else if f = "private_key_length" then e.privateKeyLength else if f = "public_key_length" then e.publicKeyLength else 0
  bytes f := if f = "magic" then .ok kdsk else if f = "uuid_le:root_key_identifier" then .ok e.rootKeyId
    else if f = "utf16z:kdf_algorithm" then .ok (e.kdfAlgorithm ++ [0, 0]) else if f = "kdf_parameters" then .ok e.kdfParameters
    else if f = "utf16z:secret_algorithm" then .ok (e.secretAlgorithm ++ [0, 0]) else if f = "secret_parameters" then .ok e.secretParameters
    else if f = "utf16z:domain_name" then .ok (e.domainName ++ [0, 0]) else if f = "utf16z:forest_name" then .ok (e.forestName ++ [0, 0])
    else if f = "l1_key" then .ok e.l1Key else if f = "l2_key" then .ok e.l2Key else .error .keyError

theorem envelopePack_eq_layout (e : Envelope) : envelopePack e = Layout.pack (envelopeEnv e) envelopeLayout := by
  unfold envelopePack envelopeLayout
  simp only [Layout.pack, envelopeEnv, u32]
  simp (config := { decide := true }) only [if_true, if_false, bind, Except.bind, pure, Except.pure, List.append_assoc, List.append_nil]
  repeat' split
  all_goals simp_all

def keyIdLayout : List Item :=
  [.int "version" 4, .bytes "magic", .int "flags" 4, .int "l0" 4, .int "l1" 4, .int "l2" 4, .bytes "uuid_le:root_key_identifier",
   .lenOf "key_info" 4, .lenOf "utf16z:domain_name" 4, .lenOf "utf16z:forest_name" 4,
   .bytes "key_info", .bytes "utf16z:domain_name", .bytes "utf16z:forest_name"]

def keyIdEnv (k : KeyId) : Env where
  ints f := if f = "version" then k.version else if f = "flags" then k.flags else if f = "l0" then k.l0 else if f = "l1" then k.l1
    else if f = "l2" then k.l2 else 0
  bytes f := if f = "magic" then .ok kdsk else if f = "uuid_le:root_key_identifier" then .ok k.rootKeyId
    else if f = "key_info" then .ok k.keyInfo
    else if f = "utf16z:domain_name" then .ok (k.domainName ++ [0, 0]) else if f = "utf16z:forest_name" then .ok (k.forestName ++ [0, 0])
    else .error .keyError

theorem keyIdPack_eq_layout (k : KeyId) : keyIdPack k = Layout.pack (keyIdEnv k) keyIdLayout := by
  unfold keyIdPack keyIdLayout
  simp only [Layout.pack, keyIdEnv, u32]
  simp (config := { decide := true }) only [if_true, if_false, bind, Except.bind, pure, Except.pure, List.append_assoc, List.append_nil]
  repeat' split
  all_goals simp_all

end Gkdi

namespace Rpc

def headerLayout : List Item :=
  [.int "version" 1, .int "version_minor" 1, .int "packet_type" 1, .int "packet_flags" 1, .bytes "pack:data_rep",
   .int "frag_len" 2, .int "auth_len" 2, .int "call_id" 4]

def headerEnv (h : Header) : Env where
  ints f := if f = "version" then h.version else if f = "version_minor" then h.versionMinor else if f = "packet_type" then h.packetType
    else if f = "packet_flags" then h.packetFlags else if f = "frag_len" then h.fragLen else if f = "auth_len" then h.authLen
    else if f = "call_id" then h.callId else 0
  bytes f := if f = "pack:data_rep" then dataRepPack h.dataRep else .error .keyError

theorem headerPack_eq_layout (h : Header) : headerPack h = Layout.pack (headerEnv h) headerLayout := by
  unfold headerPack headerLayout
  simp only [Layout.pack, headerEnv, le]
  simp (config := { decide := true }) only [if_true, if_false, bind, Except.bind, pure, Except.pure, List.append_assoc, List.append_nil]
  repeat' split
  all_goals simp_all

def secTrailerLayout : List Item :=
  [.int "type" 1, .int "level" 1, .int "pad_length" 1, .const [0], .int "context_id" 4, .bytes "auth_value"]

def secTrailerEnv (t : SecTrailer) : Env where
  ints f := if f = "type" then t.type else if f = "level" then t.level else if f = "pad_length" then t.padLength
    else if f = "context_id" then t.contextId else 0
  bytes f := if f = "auth_value" then .ok t.authValue else .error .keyError

theorem secTrailerPack_eq_layout (t : SecTrailer) : secTrailerPack t = Layout.pack (secTrailerEnv t) secTrailerLayout := by
  unfold secTrailerPack secTrailerLayout
  simp only [Layout.pack, secTrailerEnv, le]
  simp (config := { decide := true }) only [if_true, if_false, bind, Except.bind, pure, Except.pure, List.append_assoc, List.append_nil]
  repeat' split
  all_goals simp_all

def requestLayout : List Item :=
  [.bytes "pack:header", .int "alloc_hint" 4, .int "context_id" 2, .int "opnum" 2, .bytes "opt_uuid_le:obj", .bytes "stub_data",
   .bytes "optpack:sec_trailer"]
def responseLayout : List Item :=
  [.bytes "pack:header", .int "alloc_hint" 4, .int "context_id" 2, .int "cancel_count" 1, .const [0], .bytes "stub_data",
   .bytes "optpack:sec_trailer"]
def faultLayout : List Item :=
  [.bytes "pack:header", .int "alloc_hint" 4, .int "context_id" 2, .int "cancel_count" 1, .int "flags" 1, .int "status" 4,
   .const [0, 0, 0, 0], .bytes "stub_data", .bytes "optpack:sec_trailer"]

/-- the environment of a request / response / fault PDU -/
def pduEnv (h : Header) (t : Option SecTrailer) (allocHint contextId opnum cancelCount flags status : Nat) (obj : Option Bytes) (stub : Bytes) : Env where
  ints f := if f = "alloc_hint" then allocHint else if f = "context_id" then contextId else if f = "opnum" then opnum
    else if f = "cancel_count" then cancelCount else if f = "flags" then flags else if f = "status" then status else 0
  bytes f := if f = "pack:header" then headerPack h else if f = "opt_uuid_le:obj" then .ok (obj.getD [])
    else if f = "stub_data" then .ok stub else if f = "optpack:sec_trailer" then optTrailerPack t else .error .keyError

theorem requestPack_eq_layout (h : Header) (t : Option SecTrailer) (ah cid op : Nat) (obj : Option Bytes) (stub : Bytes) :
    pduPack ⟨h, t, .request ah cid op obj stub⟩ = Layout.pack (pduEnv h t ah cid op 0 0 0 obj stub) requestLayout := by
  unfold pduPack requestLayout
  simp only [Layout.pack, pduEnv, le]
  simp (config := { decide := true }) only [if_true, if_false, bind, Except.bind, pure, Except.pure, List.append_assoc, List.append_nil]
  repeat' split
  all_goals simp_all

theorem responsePack_eq_layout (h : Header) (t : Option SecTrailer) (ah cid cc : Nat) (stub : Bytes) :
    pduPack ⟨h, t, .response ah cid cc stub⟩ = Layout.pack (pduEnv h t ah cid 0 cc 0 0 none stub) responseLayout := by
  unfold pduPack responseLayout
  simp only [Layout.pack, pduEnv, le]
  simp (config := { decide := true }) only [if_true, if_false, bind, Except.bind, pure, Except.pure, List.append_assoc, List.append_nil]
  repeat' split
  all_goals simp_all

theorem faultPack_eq_layout (h : Header) (t : Option SecTrailer) (ah cid cc status flags : Nat) (stub : Bytes) :
    pduPack ⟨h, t, .fault ah cid cc status flags stub⟩ = Layout.pack (pduEnv h t ah cid 0 cc flags status none stub) faultLayout := by
  unfold pduPack faultLayout
  simp only [Layout.pack, pduEnv, le]
  simp (config := { decide := true }) only [if_true, if_false, bind, Except.bind, pure, Except.pure, List.append_assoc, List.append_nil]
  repeat' split
  all_goals simp_all

end Rpc
namespace Gkdi
def kdfParamsLayout : List Item := [.const [0, 0, 0, 0, 1, 0, 0, 0], .lenOf "utf16z:hash_name" 4, .const [0, 0, 0, 0], .bytes "utf16z:hash_name"]
def kdfParamsEnv (hashName : Bytes) : Env where
  ints _ := 0
  bytes f := if f = "utf16z:hash_name" then .ok (hashName ++ [0, 0]) else .error .keyError
theorem kdfParamsPack_eq_layout (hn : Bytes) : kdfParamsPack hn = Layout.pack (kdfParamsEnv hn) kdfParamsLayout := by
  unfold kdfParamsPack kdfParamsLayout
  simp only [Layout.pack, kdfParamsEnv, u32]
  simp (config := { decide := true }) only [if_true, if_false, bind, Except.bind, pure, Except.pure, List.append_assoc, List.append_nil]
  repeat' split
  all_goals simp_all

def ffcKeyLayout : List Item :=
  [.bytes "magic", .int "key_length" 4, .bytes "be:field_order:key_length", .bytes "be:generator:key_length", .bytes "be:public_key:key_length"]
def ffcKeyEnv (k : FfcKey) : Env where
  ints f := if f = "key_length" then k.keyLength else 0
  bytes f := if f = "magic" then .ok dhpb else if f = "be:field_order:key_length" then Py.toBytesBE k.fieldOrder k.keyLength
    else if f = "be:generator:key_length" then Py.toBytesBE k.generator k.keyLength
    else if f = "be:public_key:key_length" then Py.toBytesBE k.publicKey k.keyLength else .error .keyError
theorem toBytesBE_err (n : Int) (k : Nat) (e : PyErr) (h : Py.toBytesBE n k = .error e) : e = .overflowError := by
  unfold Py.toBytesBE at h; split at h
  · cases h; rfl
  · split at h
    · cases h
    · cases h; rfl
theorem toBytesLE_err (n : Int) (k : Nat) (e : PyErr) (h : Py.toBytesLE n k = .error e) : e = .overflowError := by
  unfold Py.toBytesLE at h; split at h
  · cases h; rfl
  · split at h
    · cases h
    · cases h; rfl

theorem ffcKeyPack_eq_layout (k : FfcKey) : ffcKeyPack k = Layout.pack (ffcKeyEnv k) ffcKeyLayout := by
  unfold ffcKeyPack ffcKeyLayout
  simp only [Layout.pack, ffcKeyEnv, u32]
  simp (config := { decide := true }) only [if_true, if_false, bind, Except.bind, pure, Except.pure, List.append_assoc, List.append_nil]
  cases h1 : Py.toBytesBE (k.fieldOrder : Int) k.keyLength with
  | error e1 =>
    have := toBytesBE_err _ _ _ h1; subst this
    cases h4 : Py.toBytesLE (k.keyLength : Int) 4 with
    | error e4 => have := toBytesLE_err _ _ _ h4; subst this; rfl
    | ok kl => rfl
  | ok fo =>
    cases h2 : Py.toBytesBE (k.generator : Int) k.keyLength with
    | error e2 =>
      have := toBytesBE_err _ _ _ h2; subst this
      cases h4 : Py.toBytesLE (k.keyLength : Int) 4 with
      | error e4 => have := toBytesLE_err _ _ _ h4; subst this; rfl
      | ok kl => rfl
    | ok g =>
      cases h3 : Py.toBytesBE (k.publicKey : Int) k.keyLength with
      | error e3 =>
        have := toBytesBE_err _ _ _ h3; subst this
        cases h4 : Py.toBytesLE (k.keyLength : Int) 4 with
        | error e4 => have := toBytesLE_err _ _ _ h4; subst this; rfl
        | ok kl => rfl
      | ok pk =>
        cases h4 : Py.toBytesLE (k.keyLength : Int) 4 with
        | error e4 => rfl
        | ok kl => simp

end Gkdi

namespace Rpc
def syntaxLayout : List Item := [.bytes "uuid_le:uuid", .int "version" 2, .int "version_minor" 2]
def syntaxEnv (s : SyntaxId) : Env where
  ints f := if f = "version" then s.version else if f = "version_minor" then s.versionMinor else 0
  bytes f := if f = "uuid_le:uuid" then .ok s.uuid else .error .keyError
theorem syntaxPack_eq_layout (s : SyntaxId) : syntaxPack s = Layout.pack (syntaxEnv s) syntaxLayout := by
  unfold syntaxPack syntaxLayout
  simp only [Layout.pack, syntaxEnv, le]
  simp (config := { decide := true }) only [if_true, if_false, bind, Except.bind, pure, Except.pure, List.append_assoc, List.append_nil]
  repeat' split
  all_goals simp_all

def resultLayout : List Item := [.int "result" 2, .int "reason" 2, .bytes "uuid_le:syntax", .int "syntax_version" 4]
def resultEnv (r : ContextResult) : Env where
  ints f := if f = "result" then r.result else if f = "reason" then r.reason else if f = "syntax_version" then r.syntaxVersion else 0
  bytes f := if f = "uuid_le:syntax" then .ok r.syntaxUuid else .error .keyError
theorem resultPack_eq_layout (r : ContextResult) : resultPack r = Layout.pack (resultEnv r) resultLayout := by
  unfold resultPack resultLayout
  simp only [Layout.pack, resultEnv, le]
  simp (config := { decide := true }) only [if_true, if_false, bind, Except.bind, pure, Except.pure, List.append_assoc, List.append_nil]
  repeat' split
  all_goals simp_all
end Rpc
namespace SecDesc

/-- `ace_to_bytes(sid, access_mask)`: `call:sid_to_bytes:sid` is the local `b_sid = sid_to_bytes(sid)` -/
def aceLayout : List Item :=
  [.const [0, 0], .lenPlus 8 "call:sid_to_bytes:sid" 2, .int "access_mask" 4, .bytes "call:sid_to_bytes:sid"]

def aceEnv (sid : Bytes) (mask : Nat) : Env where
  ints f := if f = "access_mask" then mask else 0
  bytes f := if f = "call:sid_to_bytes:sid" then .ok sid else .error .keyError

theorem aceBytes_eq_layout (sid : Bytes) (mask : Nat) (hs : 8 + sid.length < 65536) (hm : mask < 2 ^ 32) :
    Layout.pack (aceEnv sid mask) aceLayout = .ok (aceBytes sid mask) := by
  have h1 : (8 + sid.length) < 256 ^ 2 := by simpa using hs
  have h2 : mask < 256 ^ 4 := by simpa using hm
  unfold aceLayout aceBytes
  simp (config := { decide := true }) only [Layout.pack, aceEnv, if_true, if_false, bind, Except.bind, pure, Except.pure,
    Py.toBytesLE_ok _ _ h1, Py.toBytesLE_ok _ _ h2, List.append_nil, List.append_assoc]

/-- `acl_to_bytes(aces)`: `join:aces` is the local `ace_data = b"".join(aces)`, `count:aces` is `len(aces)` -/
def aclLayout : List Item :=
  [.const [2, 0], .lenPlus 8 "join:aces" 2, .int "count:aces" 2, .const [0, 0], .bytes "join:aces"]

def aclEnv (aces : List Bytes) : Env where
  ints f := if f = "count:aces" then aces.length else 0
  bytes f := if f = "join:aces" then .ok aces.flatten else .error .keyError

theorem aclBytes_eq_layout (aces : List Bytes) (hs : 8 + aces.flatten.length < 65536) (hn : aces.length < 65536) :
    Layout.pack (aclEnv aces) aclLayout = .ok (aclBytes aces) := by
  have h1 : (8 + aces.flatten.length) < 256 ^ 2 := by simpa using hs
  have h2 : aces.length < 256 ^ 2 := by simpa using hn
  unfold aclLayout aclBytes
  simp (config := { decide := true }) only [Layout.pack, aclEnv, if_true, if_false, bind, Except.bind, pure, Except.pure,
    Py.toBytesLE_ok _ _ h1, Py.toBytesLE_ok _ _ h2, List.append_nil, List.append_assoc]

end SecDesc

namespace Rpc
/-! presentation contexts, bind / alter-context bodies, the verification trailer and its commands.
    `packs:x` is `b"".join(e.pack() for e in self.x)`, `.countOf "x"` is `len(self.x)` of a list-valued field,
    `a.value|b.value` is the integer `self.a.value | self.b.value`. -/

/-- `b"".join([x.pack() for x in xs])` -/
def packs {α : Type} (f : α → R Bytes) (xs : List α) : R Bytes := do
  let l ← xs.mapM f
  pure l.flatten

def contextLayout : List Item :=
  [.int "context_id" 2, .countOf "transfer_syntaxes" 2, .bytes "pack:abstract_syntax", .bytes "packs:transfer_syntaxes"]
def contextEnv (c : ContextElement) : Env where
  ints f := if f = "context_id" then c.contextId else 0
  bytes f := if f = "pack:abstract_syntax" then syntaxPack c.abstractSyntax
    else if f = "packs:transfer_syntaxes" then packs syntaxPack c.transferSyntaxes else .error .keyError
  counts f := if f = "transfer_syntaxes" then c.transferSyntaxes.length else 0

theorem contextPack_eq_layout (c : ContextElement) : contextPack c = Layout.pack (contextEnv c) contextLayout := by
  unfold contextPack contextLayout
  simp only [Layout.pack, contextEnv, le, packs]
  simp (config := { decide := true }) only [if_true, if_false, bind, Except.bind, pure, Except.pure, List.append_assoc, List.append_nil]
  repeat' split
  all_goals simp_all

def bindLayout : List Item :=
  [.bytes "pack:header", .int "max_xmit_frag" 2, .int "max_recv_frag" 2, .int "assoc_group" 4, .countOf "contexts" 4,
   .bytes "packs:contexts", .bytes "optpack:sec_trailer"]
def bindEnv (h : Header) (t : Option SecTrailer) (mx mr ag : Nat) (ctxs : List ContextElement) : Env where
  ints f := if f = "max_xmit_frag" then mx else if f = "max_recv_frag" then mr else if f = "assoc_group" then ag else 0
  bytes f := if f = "pack:header" then headerPack h else if f = "packs:contexts" then packs contextPack ctxs
    else if f = "optpack:sec_trailer" then optTrailerPack t else .error .keyError
  counts f := if f = "contexts" then ctxs.length else 0

theorem bindPack_eq_layout (h : Header) (t : Option SecTrailer) (alter : Bool) (mx mr ag : Nat) (ctxs : List ContextElement) :
    pduPack ⟨h, t, .bind alter mx mr ag ctxs⟩ = Layout.pack (bindEnv h t mx mr ag ctxs) bindLayout := by
  unfold pduPack bindLayout
  simp only [Layout.pack, bindEnv, le, packs]
  simp (config := { decide := true }) only [if_true, if_false, bind, Except.bind, pure, Except.pure, List.append_assoc, List.append_nil]
  repeat' split
  all_goals simp_all

def commandLayout : List Item := [.int "command.value|flags.value" 2, .lenOf "value" 2, .bytes "value"]
/-- `Command(self.command, self.flags, value)`: the value is already bytes when `Command.pack` runs -/
def commandEnv (command flags : Nat) (value : Bytes) : Env where
  ints f := if f = "command.value|flags.value" then command ||| flags else 0
  bytes f := if f = "value" then .ok value else .error .keyError

theorem commandPack_eq_layout (c : Command) :
    commandPack c = (cmdValuePack c).bind fun v => Layout.pack (commandEnv c.command c.flags v) commandLayout := by
  unfold commandPack commandLayout
  simp only [Layout.pack, commandEnv, le]
  simp (config := { decide := true }) only [if_true, if_false, bind, Except.bind, pure, Except.pure, List.append_assoc, List.append_nil]
  repeat' split
  all_goals simp_all

def vtLayout : List Item := [.bytes "signature", .bytes "packs:commands"]
def vtEnv (cmds : List Command) : Env where
  ints _ := 0
  bytes f := if f = "signature" then .ok vtSignature else if f = "packs:commands" then packs commandPack cmds else .error .keyError

theorem vtPack_eq_layout (cmds : List Command) : vtPack cmds = Layout.pack (vtEnv cmds) vtLayout := by
  unfold vtPack vtLayout
  simp only [Layout.pack, vtEnv, packs]
  simp (config := { decide := true }) only [if_true, if_false, bind, Except.bind, pure, Except.pure, List.append_assoc, List.append_nil]
  repeat' split
  all_goals simp_all

/-! the `value` of the three known verification commands -/
def bitmaskValueLayout : List Item := [.int "bits" 4]
def pcontextValueLayout : List Item := [.bytes "pack:interface_id", .bytes "pack:transfer_syntax"]
def header2ValueLayout : List Item :=
  [.int "packet_type" 1, .const [0, 0, 0], .bytes "pack:data_rep", .int "call_id" 4, .int "context_id" 2, .int "opnum" 2]

def bitmaskEnv (bits : Nat) : Env where
  ints f := if f = "bits" then bits else 0
  bytes _ := .error .keyError
def pcontextEnv (i t : SyntaxId) : Env where
  ints _ := 0
  bytes f := if f = "pack:interface_id" then syntaxPack i else if f = "pack:transfer_syntax" then syntaxPack t else .error .keyError
def header2Env (pt : Nat) (dr : DataRep) (callId cid op : Nat) : Env where
  ints f := if f = "packet_type" then pt else if f = "call_id" then callId else if f = "context_id" then cid
    else if f = "opnum" then op else 0
  bytes f := if f = "pack:data_rep" then dataRepPack dr else .error .keyError

theorem bitmaskValue_eq_layout (ct fl bits : Nat) :
    cmdValuePack ⟨ct, fl, .bitmask bits⟩ = Layout.pack (bitmaskEnv bits) bitmaskValueLayout := by
  unfold cmdValuePack bitmaskValueLayout
  simp only [Layout.pack, bitmaskEnv, pcontextEnv, header2Env, le]
  simp (config := { decide := true }) only [if_true, if_false, bind, Except.bind, pure, Except.pure, List.append_assoc, List.append_nil]
  repeat' split
  all_goals simp_all

theorem pcontextValue_eq_layout (ct fl : Nat) (i t : SyntaxId) :
    cmdValuePack ⟨ct, fl, .pcontext i t⟩ = Layout.pack (pcontextEnv i t) pcontextValueLayout := by
  unfold cmdValuePack pcontextValueLayout
  simp only [Layout.pack, bitmaskEnv, pcontextEnv, header2Env, le]
  simp (config := { decide := true }) only [if_true, if_false, bind, Except.bind, pure, Except.pure, List.append_assoc, List.append_nil]
  repeat' split
  all_goals simp_all

theorem header2Value_eq_layout (ct fl pt : Nat) (dr : DataRep) (callId cid op : Nat) :
    cmdValuePack ⟨ct, fl, .header2 pt dr callId cid op⟩ = Layout.pack (header2Env pt dr callId cid op) header2ValueLayout := by
  unfold cmdValuePack header2ValueLayout
  simp only [Layout.pack, bitmaskEnv, pcontextEnv, header2Env, le]
  simp (config := { decide := true }) only [if_true, if_false, bind, Except.bind, pure, Except.pure, List.append_assoc, List.append_nil]
  repeat' split
  all_goals simp_all

def bindAckLayout : List Item :=
  [.bytes "pack:header", .int "max_xmit_frag" 2, .int "max_recv_frag" 2, .int "assoc_group" 4, .lenOf "cstr:sec_addr" 2,
   .bytes "cstr:sec_addr", .zerosNegMod 2 "cstr:sec_addr" 4, .countOf "results" 4, .bytes "packs:results", .bytes "optpack:sec_trailer"]
/-- `cstr:x` is `self.x.encode("utf-8") + b"\0"` when `self.x` is non-empty, `b""` otherwise -/
def bindAckEnv (h : Header) (t : Option SecTrailer) (mx mr ag : Nat) (sa : Bytes) (results : List ContextResult) : Env where
  ints f := if f = "max_xmit_frag" then mx else if f = "max_recv_frag" then mr else if f = "assoc_group" then ag else 0
  bytes f := if f = "pack:header" then headerPack h else if f = "cstr:sec_addr" then .ok (if sa = [] then [] else sa ++ [0])
    else if f = "packs:results" then packs resultPack results else if f = "optpack:sec_trailer" then optTrailerPack t else .error .keyError
  counts f := if f = "results" then results.length else 0

theorem bindAckPack_eq_layout (h : Header) (t : Option SecTrailer) (alter : Bool) (mx mr ag : Nat) (sa : Bytes) (results : List ContextResult) :
    pduPack ⟨h, t, .bindAck alter mx mr ag sa results⟩ = Layout.pack (bindAckEnv h t mx mr ag sa results) bindAckLayout := by
  unfold pduPack bindAckLayout
  simp only [Layout.pack, bindAckEnv, le, packs]
  simp (config := { decide := true }) only [if_true, if_false, bind, Except.bind, pure, Except.pure, List.append_assoc, List.append_nil]
  repeat' split
  all_goals simp_all

/-- `a<<k|b` is the integer `self.a << k | self.b` -/
def dataRepLayout : List Item := [.int "byte_order<<4|character" 1, .int "floating_point" 1, .const [0, 0]]
def dataRepEnv (d : DataRep) : Env where
  ints f := if f = "byte_order<<4|character" then d.byteOrder <<< 4 ||| d.character else if f = "floating_point" then d.floatingPoint else 0
  bytes _ := .error .keyError

theorem dataRepPack_eq_layout (d : DataRep) : dataRepPack d = Layout.pack (dataRepEnv d) dataRepLayout := by
  unfold dataRepPack dataRepLayout
  simp only [Layout.pack, dataRepEnv, le]
  have h : d.byteOrder <<< 4 = d.byteOrder * 16 := by rw [Nat.shiftLeft_eq]
  simp (config := { decide := true }) only [if_true, if_false, bind, Except.bind, pure, Except.pure, List.append_assoc, List.append_nil, h]
  repeat' split
  all_goals simp_all

end Rpc

end DpapiNg
