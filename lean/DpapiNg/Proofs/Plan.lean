/-
  The hand-written `unpack` models ARE the interpretation of the decoder plans that the translator regenerates from
  /repo's `unpack` classmethods on every run (obligations `Gen.Plan*_eq : Gen.Plan* = <plan below>`).
  Local-variable names are the Python ones; the second component is the keyword → local table of the constructor call
  the method returns.
-/
import DpapiNg.Model.Plan
namespace DpapiNg
open DpapiNg.Plan

namespace Plan
theorem ite_bind {α β : Type} {c : Prop} [Decidable c] (x : α) (e : PyErr) (F : α → Except PyErr β) :
    Except.bind (if c then Except.ok x else Except.error e : Except PyErr α) F = (if c then F x else Except.error e : Except PyErr β) := by
  split <;> rfl
theorem ok_bind {α β : Type} (x : α) (F : α → Except PyErr β) : Except.bind (Except.ok x : Except PyErr α) F = F x := rfl
theorem map_ite' {α β : Type} {c : Prop} [Decidable c] (a b : Except PyErr α) (f : α → β) :
    Except.map f (if c then a else b) = if c then Except.map f a else Except.map f b := by
  split <;> rfl
theorem map_ok {α β : Type} (a : α) (f : α → β) : Except.map f (Except.ok a : Except PyErr α) = Except.ok (f a) := rfl
theorem map_err {α β : Type} (e : PyErr) (f : α → β) : Except.map f (Except.error e : Except PyErr α) = Except.error e := rfl
end Plan

namespace Gkdi

def envelopePlan : List Step × List (String × String) :=
  ([.int "version" 0 4, .magic 4 8, .int "flags" 8 12, .int "l0_index" 12 16, .int "l1_index" 16 20, .int "l2_index" 20 24,
    .uuid "root_key_identifier" 24 40, .int "kdf_algo_len" 40 44, .int "kdf_para_len" 44 48, .int "sec_algo_len" 48 52,
    .int "sec_para_len" 52 56, .int "priv_key_len" 56 60, .int "publ_key_len" 60 64, .int "l1_key_len" 64 68, .int "l2_key_len" 68 72,
    .int "domain_len" 72 76, .int "forest_len" 76 80, .skip 80,
    .text "kdf_algo" "kdf_algo_len", .skipLen "kdf_algo_len", .bytes "kdf_param" "kdf_para_len", .skipLen "kdf_para_len",
    .text "secret_algo" "sec_algo_len", .skipLen "sec_algo_len", .bytes "secret_param" "sec_para_len", .skipLen "sec_para_len",
    .text "domain" "domain_len", .skipLen "domain_len", .text "forest" "forest_len", .skipLen "forest_len",
    .bytes "l1_key" "l1_key_len", .skipLen "l1_key_len", .bytes "l2_key" "l2_key_len", .skipLen "l2_key_len"],
   [("version", "version"), ("flags", "flags"), ("l0", "l0_index"), ("l1", "l1_index"), ("l2", "l2_index"),
    ("root_key_identifier", "root_key_identifier"), ("kdf_algorithm", "kdf_algo"), ("kdf_parameters", "kdf_param"),
    ("secret_algorithm", "secret_algo"), ("secret_parameters", "secret_param"), ("private_key_length", "priv_key_len"),
    ("public_key_length", "publ_key_len"), ("domain_name", "domain"), ("forest_name", "forest"), ("l1_key", "l1_key"), ("l2_key", "l2_key")])

/-- `GroupKeyEnvelope(version=…, flags=…, …)` from the locals the plan bound -/
def envelopeOfEnv (ret : List (String × String)) (e : Env) : Envelope :=
  ⟨e.ints (arg ret "version"), e.ints (arg ret "flags"), e.ints (arg ret "l0"), e.ints (arg ret "l1"), e.ints (arg ret "l2"),
   e.bytes (arg ret "root_key_identifier"), e.bytes (arg ret "kdf_algorithm"), e.bytes (arg ret "kdf_parameters"),
   e.bytes (arg ret "secret_algorithm"), e.bytes (arg ret "secret_parameters"), e.ints (arg ret "private_key_length"),
   e.ints (arg ret "public_key_length"), e.bytes (arg ret "domain_name"), e.bytes (arg ret "forest_name"),
   e.bytes (arg ret "l1_key"), e.bytes (arg ret "l2_key")⟩

theorem envelopeUnpack_eq_plan (v : Bytes) :
    envelopeUnpack v = (Plan.run kdsk envelopePlan.1 v .empty).map (envelopeOfEnv envelopePlan.2) := by
  unfold envelopeUnpack envelopePlan readName uuidOf le32
  simp only [Plan.run, Env.setInt, Env.setBytes, Env.empty, bind, pure, Except.pure, ite_bind, map_ite', map_ok, map_err,
    Nat.reduceAdd, ite_not]
  simp (config := { decide := true }) only [envelopeOfEnv, arg, List.lookup, Option.getD, if_true, if_false]

def keyIdPlan : List Step × List (String × String) :=
  ([.int "version" 0 4, .magic 4 8, .int "flags" 8 12, .int "l0_index" 12 16, .int "l1_index" 16 20, .int "l2_index" 20 24,
    .uuid "root_key_identifier" 24 40, .int "key_info_len" 40 44, .int "domain_len" 44 48, .int "forest_len" 48 52, .skip 52,
    .bytes "key_info" "key_info_len", .skipLen "key_info_len", .text "domain" "domain_len", .skipLen "domain_len",
    .text "forest" "forest_len", .skipLen "forest_len"],
   [("version", "version"), ("flags", "flags"), ("l0", "l0_index"), ("l1", "l1_index"), ("l2", "l2_index"),
    ("root_key_identifier", "root_key_identifier"), ("key_info", "key_info"), ("domain_name", "domain"), ("forest_name", "forest")])

def keyIdOfEnv (ret : List (String × String)) (e : Env) : KeyId :=
  ⟨e.ints (arg ret "version"), e.ints (arg ret "flags"), e.ints (arg ret "l0"), e.ints (arg ret "l1"), e.ints (arg ret "l2"),
   e.bytes (arg ret "root_key_identifier"), e.bytes (arg ret "key_info"), e.bytes (arg ret "domain_name"), e.bytes (arg ret "forest_name")⟩

theorem keyIdUnpack_eq_plan (v : Bytes) :
    keyIdUnpack v = (Plan.run kdsk keyIdPlan.1 v .empty).map (keyIdOfEnv keyIdPlan.2) := by
  unfold keyIdUnpack keyIdPlan readName uuidOf le32
  simp only [Plan.run, Env.setInt, Env.setBytes, Env.empty, bind, pure, Except.pure, ite_bind, map_ite', map_ok, map_err,
    Nat.reduceAdd, ite_not]
  simp (config := { decide := true }) only [keyIdOfEnv, arg, List.lookup, Option.getD, if_true, if_false]

def ffcParamsPlan : List Step × List (String × String) :=
  ([.magic 4 8, .int "key_length" 8 12,
    .slice "field_order" (.lit 12) (.add (.lit 12) (.var "key_length")),
    .slice "generator" (.add (.lit 12) (.var "key_length")) (.add (.add (.lit 12) (.var "key_length")) (.var "key_length")),
    .beInt "be:field_order" "field_order", .beInt "be:generator" "generator"],
   [("key_length", "key_length"), ("field_order", "be:field_order"), ("generator", "be:generator")])

def ffcParamsOfEnv (ret : List (String × String)) (e : Env) : FfcParams :=
  ⟨e.ints (arg ret "key_length"), e.ints (arg ret "field_order"), e.ints (arg ret "generator")⟩

theorem ffcParamsUnpack_eq_plan (v : Bytes) :
    ffcParamsUnpack v = (Plan.run dhpm ffcParamsPlan.1 v .empty).map (ffcParamsOfEnv ffcParamsPlan.2) := by
  unfold ffcParamsUnpack ffcParamsPlan
  simp only [Plan.run, Expr.eval, Env.setInt, Env.setBytes, Env.empty, bind, pure, Except.pure, ite_bind, map_ite', map_ok, map_err,
    Nat.reduceAdd, ite_not]
  simp (config := { decide := true }) only [ffcParamsOfEnv, arg, List.lookup, Option.getD, if_true, if_false]

def ffcKeyPlan : List Step × List (String × String) :=
  ([.magic 0 4, .int "key_length" 4 8, .guardLen (.add (.lit 8) (.mul (.lit 3) (.var "key_length"))),
    .slice "field_order" (.lit 8) (.add (.lit 8) (.var "key_length")), .skipE (.add (.lit 8) (.var "key_length")),
    .bytes "generator" "key_length", .skipLen "key_length", .bytes "public_key" "key_length",
    .beInt "be:field_order" "field_order", .beInt "be:generator" "generator", .beInt "be:public_key" "public_key"],
   [("key_length", "key_length"), ("field_order", "be:field_order"), ("generator", "be:generator"), ("public_key", "be:public_key")])

def ffcKeyOfEnv (ret : List (String × String)) (e : Env) : FfcKey :=
  ⟨e.ints (arg ret "key_length"), e.ints (arg ret "field_order"), e.ints (arg ret "generator"), e.ints (arg ret "public_key")⟩

theorem ffcKeyUnpack_eq_plan (v : Bytes) :
    ffcKeyUnpack v = (Plan.run dhpb ffcKeyPlan.1 v .empty).map (ffcKeyOfEnv ffcKeyPlan.2) := by
  unfold ffcKeyUnpack ffcKeyPlan
  simp only [Plan.run, Expr.eval, Env.setInt, Env.setBytes, Env.empty, bind, pure, Except.pure, ite_bind, map_ite', map_ok, map_err,
    Nat.reduceAdd, ite_not]
  simp (config := { decide := true }) only [ffcKeyOfEnv, arg, List.lookup, Option.getD, if_true, if_false, Py.sliceN, List.drop_zero]

def kdfParamsPlan : List Step × List (String × String) :=
  ([.magicLit 0 8 [0, 0, 0, 0, 1, 0, 0, 0], .magicLit 12 16 [0, 0, 0, 0], .int "hash_length" 8 12,
    .textSub "hash_name" (.lit 16) (.add (.lit 16) (.var "hash_length")) 2],
   [("hash_name", "hash_name")])

theorem kdfParamsUnpack_eq_plan (v : Bytes) :
    kdfParamsUnpack v = (Plan.run [] kdfParamsPlan.1 v .empty).map (fun e => e.bytes (arg kdfParamsPlan.2 "hash_name")) := by
  unfold kdfParamsUnpack kdfParamsPlan
  simp only [Plan.run, Expr.eval, Env.setInt, Env.setBytes, Env.empty, bind, pure, Except.pure, ite_bind, map_ite', map_ok, map_err,
    Nat.reduceAdd, ite_not]
  simp (config := { decide := true }) only [arg, List.lookup, Option.getD, if_true, if_false]
  by_cases h1 : Py.sliceN v 0 8 = [0, 0, 0, 0, 1, 0, 0, 0] <;> by_cases h2 : Py.sliceN v 12 16 = [0, 0, 0, 0] <;>
    simp [h1, h2, Int.natCast_add]

end Gkdi
end DpapiNg
