/-
  `Py.powMod` (square-and-multiply, as CPython's three-argument `pow`) computes b^e mod m.
-/
import DpapiNg.Model.Py
namespace DpapiNg.Py

theorem powMod_go (m : Nat) (hm : 0 < m) :
    ∀ (fuel b e acc : Nat), e < fuel → powMod.go m fuel b e acc = (acc * b ^ e) % m := by
  intro fuel
  induction fuel with
  | zero => intro b e acc h; omega
  | succ fuel ih =>
    intro b e acc h
    unfold powMod.go
    by_cases he : e = 0
    · simp [he]
    · simp only [he, if_false]
      have hlt : e / 2 < fuel := by omega
      rw [ih _ _ _ hlt]
      have hb : (b * b % m) ^ (e / 2) % m = (b * b) ^ (e / 2) % m := by rw [Nat.pow_mod, Nat.mod_mod, ← Nat.pow_mod]
      have hsq : (b * b) ^ (e / 2) = b ^ (2 * (e / 2)) := by rw [Nat.pow_mul, Nat.pow_two]
      by_cases hodd : e % 2 = 1
      · simp only [hodd, if_true]
        have he2 : e = 2 * (e / 2) + 1 := by omega
        calc (acc * b % m * (b * b % m) ^ (e / 2)) % m
            = ((acc * b % m) * ((b * b % m) ^ (e / 2) % m)) % m := by rw [Nat.mul_mod, Nat.mod_mod]
          _ = ((acc * b % m) * ((b * b) ^ (e / 2) % m)) % m := by rw [hb]
          _ = ((acc * b) * (b * b) ^ (e / 2)) % m := by rw [← Nat.mul_mod]
          _ = (acc * b ^ e) % m := by
              rw [hsq, Nat.mul_assoc]
              congr 2
              conv => rhs; rw [he2]
              rw [Nat.pow_succ, Nat.mul_comm]
      · have hev : e % 2 = 0 := by omega
        have hne : ¬ (e % 2 = 1) := by omega
        simp only [hne, if_false]
        have he2 : e = 2 * (e / 2) := by omega
        calc (acc * (b * b % m) ^ (e / 2)) % m
            = (acc % m * ((b * b % m) ^ (e / 2) % m)) % m := by rw [Nat.mul_mod]
          _ = (acc % m * ((b * b) ^ (e / 2) % m)) % m := by rw [hb]
          _ = (acc * (b * b) ^ (e / 2)) % m := by rw [← Nat.mul_mod]
          _ = (acc * b ^ e) % m := by rw [hsq, ← he2]

/-- three-argument `pow` -/
theorem powMod_eq (b e m : Nat) (hm : 0 < m) : powMod b e m = b ^ e % m := by
  unfold powMod
  have : ¬ m = 0 := by omega
  simp only [this, if_false]
  rw [powMod_go m hm (e + 1) (b % m) e 1 (by omega)]
  rw [Nat.one_mul, ← Nat.pow_mod]

/-- Diffie–Hellman agreement: (g^x)^e ≡ (g^e)^x -/
theorem dh_agree (g x e p : Nat) (hp : 0 < p) :
    powMod (powMod g x p) e p = powMod (powMod g e p) x p := by
  rw [powMod_eq _ _ _ hp, powMod_eq _ _ _ hp, powMod_eq _ _ _ hp, powMod_eq _ _ _ hp]
  rw [← Nat.pow_mod, ← Nat.pow_mod, ← Nat.pow_mul, ← Nat.pow_mul, Nat.mul_comm]

theorem powMod_lt (b e m : Nat) (hm : 0 < m) : powMod b e m < m := by
  rw [powMod_eq _ _ _ hm]; exact Nat.mod_lt _ hm

end DpapiNg.Py
