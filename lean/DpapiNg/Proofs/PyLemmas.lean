/-
  Lemmas about the Py prelude used across properties: fixed-width integers, slices, padding.
-/
import DpapiNg.Model.Py
namespace DpapiNg.Py

@[simp] theorem toLE_length (n k : Nat) : (toLE n k).length = k := by
  induction k generalizing n with
  | zero => rfl
  | succ k ih => simp [toLE, ih]

@[simp] theorem toBE_length (n k : Nat) : (toBE n k).length = k := by simp [toBE]

theorem toLE_isBytes (n k : Nat) : IsBytes (toLE n k) := by
  induction k generalizing n with
  | zero => intro x hx; simp [toLE] at hx
  | succ k ih =>
    intro x hx
    simp only [toLE, List.mem_cons] at hx
    rcases hx with rfl | hx
    · omega
    · exact ih _ x hx

theorem toBE_isBytes (n k : Nat) : IsBytes (toBE n k) := by
  intro x hx; exact toLE_isBytes n k x (by simpa [toBE] using hx)

theorem fromLE_toLE (n k : Nat) (h : n < 256 ^ k) : fromLE (toLE n k) = n := by
  induction k generalizing n with
  | zero => simp at h; simp [toLE, fromLE, h]
  | succ k ih =>
    have : n / 256 < 256 ^ k := by rw [Nat.pow_succ] at h; omega
    simp only [toLE, fromLE, ih _ this]; omega

/-- fixed-width big-endian integers round-trip with leading zeros kept -/
theorem fromBE_toBE (n k : Nat) (h : n < 256 ^ k) : fromBE (toBE n k) = n := by
  simp [fromBE, toBE, fromLE_toLE n k h]

theorem fromLE_append (a b : Bytes) : fromLE (a ++ b) = fromLE a + 256 ^ a.length * fromLE b := by
  induction a with
  | nil => simp [fromLE]
  | cons d ds ih =>
    simp only [List.cons_append, fromLE, ih, List.length_cons, Nat.pow_succ]
    rw [Nat.mul_add, Nat.mul_comm (256 ^ ds.length) 256, Nat.mul_assoc]; omega

theorem fromLE_lt (b : Bytes) (h : IsBytes b) : fromLE b < 256 ^ b.length := by
  induction b with
  | nil => simp [fromLE]
  | cons d ds ih =>
    have hd : d < 256 := h d (by simp)
    have := ih (fun x hx => h x (by simp [hx]))
    simp only [fromLE, List.length_cons, Nat.pow_succ]; omega

/-- a byte string is the fixed-width encoding of its own value -/
theorem toLE_fromLE (b : Bytes) (h : IsBytes b) : toLE (fromLE b) b.length = b := by
  induction b with
  | nil => rfl
  | cons d ds ih =>
    have hd : d < 256 := h d (by simp)
    have := ih (fun x hx => h x (by simp [hx]))
    simp only [fromLE, List.length_cons, toLE]
    have e1 : (d + 256 * fromLE ds) % 256 = d := by omega
    have e2 : (d + 256 * fromLE ds) / 256 = fromLE ds := by omega
    rw [e1, e2, this]

theorem negMod_lt (n m : Nat) (hm : 0 < m) : negMod n m < m := by
  unfold negMod; exact Nat.mod_lt _ hm

theorem negMod_aligned (n m : Nat) (hm : 0 < m) : (n + negMod n m) % m = 0 := by
  unfold negMod
  have h1 := Nat.mod_lt n hm
  by_cases h : n % m = 0
  · simp [h, Nat.mod_self]
  · have : (m - n % m) % m = m - n % m := Nat.mod_eq_of_lt (by omega)
    rw [this]
    have hd := Nat.div_add_mod n m
    have : n + (m - n % m) = m * (n / m + 1) := by rw [Nat.mul_add]; omega
    rw [this]; exact Nat.mul_mod_right _ _

@[simp] theorem zeros_length (n : Nat) : (zeros n).length = n := by simp [zeros]

theorem drop_prefix {α} (p rest : List α) (k : Nat) (h : p.length = k) : (p ++ rest).drop k = rest := by
  subst h; exact List.drop_left

theorem take_prefix {α} (p rest : List α) (k : Nat) (h : p.length = k) : (p ++ rest).take k = p := by
  subst h; exact List.take_left

end DpapiNg.Py
