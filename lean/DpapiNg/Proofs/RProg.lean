/-
  The hand-written `unpack` models of `_pkcs7.py` / `_blob.py` ARE the interpretation of the ASN.1 reader programs
  that the translator regenerates from /repo's source on every run
  (obligations `Gen.RProg*_eq : Gen.RProg* = <program below>`, closed by `rfl`).
  Local-variable and keyword names are the Python ones; the decoded objects are compared as `Val`s built by the
  same `toVal` functions the writer programs read their fields from (`Proofs/WProg.lean`).
-/
import DpapiNg.Model.RProg
import DpapiNg.Proofs.WProg
namespace DpapiNg.Blob
open DpapiNg DpapiNg.Asn1 DpapiNg.WProg DpapiNg.RProg

def algIdRProg : List RProg.Op × Ret :=
  ([.enter false, .readOid "algorithm", .setNone "parameters", .ifMore [.remaining "parameters"]],
   .build [("algorithm", "algorithm"), ("parameters", "parameters")])
def otherAttrRProg : List RProg.Op × Ret :=
  ([.enter true, .readOid "key_attr_id", .setNone "key_attr", .ifMore [.remaining "key_attr"]],
   .build [("key_attr_id", "key_attr_id"), ("key_attr", "key_attr")])
def kekIdRProg : List RProg.Op × Ret :=
  ([.enter false, .readOctets "key_identifier" none, .peek, .setNone "date", .ifHeader 0 24 [.readGenTime "date" true, .peek],
    .setNone "other", .ifHeader 0 16 [.sub "other" "OtherKeyAttribute" true]],
   .build [("key_identifier", "key_identifier"), ("date", "date"), ("other", "other")])
def kekRiRProg : List RProg.Op × Ret :=
  ([.enter true, .readInt "version", .sub "kekid" "KEKIdentifier" false, .sub "key_encryption_algorithm" "AlgorithmIdentifier" false,
    .readOctets "encrypted_key" none],
   .build [("version", "version"), ("kekid", "kekid"), ("key_encryption_algorithm", "key_encryption_algorithm"),
           ("encrypted_key", "encrypted_key")])
def recipientInfoRProg : List RProg.Op × Ret := ([.peek], .dispatch 2 2 "KEKRecipientInfo" .notImplemented)
def encContentInfoRProg : List RProg.Op × Ret :=
  ([.enter false, .readOid "content_type", .sub "content_encryption_algorithm" "AlgorithmIdentifier" false, .setNone "enc_content",
    .ifMore [.readOctets "enc_content" (some (ctx 0 false))]],
   .build [("content_type", "content_type"), ("algorithm", "content_encryption_algorithm"), ("content", "enc_content")])
def envelopedDataRProg : List RProg.Op × Ret :=
  ([.enter false, .readInt "version", .requireInt "version" 2 .notImplemented, .setOfLoop "recipient_infos" "RecipientInfo",
    .sub "enc_content" "EncryptedContentInfo" false],
   .build [("version", "version"), ("recipient_infos", "recipient_infos"), ("encrypted_content_info", "enc_content")])
def contentInfoRProg : List RProg.Op × Ret :=
  ([.enter true, .readOid "content_type", .readOctets "content" (some (ctx 0 true))],
   .build [("content_type", "content_type"), ("content", "content")])
def protDescRProg : List RProg.Op × Ret :=
  ([.enter false, .readOid "content_type", .enter false, .enter false, .enter false, .readUtf8 "value_type", .readUtf8 "value"],
   .guarded [.oidIs "content_type" oidSidProtector, .textIs "value_type" utf8SID] "value" .valueError)

/-- the class tables: `Cls.unpack(reader[, header=header])` -/
def rcall0 : Call := fun cls v h =>
  if cls = "AlgorithmIdentifier" then RProg.run RProg.noCall algIdRProg v h
  else if cls = "OtherKeyAttribute" then RProg.run RProg.noCall otherAttrRProg v h
  else .error .typeError
def rcall1 : Call := fun cls v h => if cls = "KEKIdentifier" then RProg.run rcall0 kekIdRProg v h else rcall0 cls v h
def rcall2 : Call := fun cls v h =>
  if cls = "KEKRecipientInfo" then RProg.run rcall1 kekRiRProg v h
  else if cls = "EncryptedContentInfo" then RProg.run rcall1 encContentInfoRProg v h
  else rcall1 cls v h
def rcall3 : Call := fun cls v h => if cls = "RecipientInfo" then RProg.run rcall2 recipientInfoRProg v h else rcall2 cls v h

theorem algIdUnpack_eq_prog (v : Bytes) :
    (algIdUnpack v).map (fun p => (p.1.toVal, p.2)) = RProg.run RProg.noCall algIdRProg v none := by
  unfold algIdUnpack algIdRProg RProg.run
  simp [RProg.runOps, RProg.runOp, RProg.runRet, St.set, St.get, List.lookup]
  cases rdSeq v with
  | error e => rfl
  | ok x =>
    simp [bind, Except.bind, Except.map]
    cases rdOid x.1 with
    | error e => rfl
    | ok y =>
      simp
      by_cases h : y.2 = [] <;> simp (config := { decide := true }) [h, AlgId.toVal, optBytes, List.lookup]

theorem otherAttr_run (v : Bytes) (h : Option Header) :
    RProg.run RProg.noCall otherAttrRProg v h =
      (do let (oc, rest) ← rdSeq v h
          let (id, oc1) ← rdOid oc
          pure ((OtherAttr.mk id (if oc1 = [] then none else some oc1)).toVal, rest)) := by
  unfold otherAttrRProg RProg.run
  simp [RProg.runOps, RProg.runOp, RProg.runRet, St.set, St.get]
  cases rdSeq v h with
  | error e => rfl
  | ok x =>
    simp [bind, Except.bind]
    cases rdOid x.1 with
    | error e => rfl
    | ok y =>
      simp
      by_cases hy : y.2 = [] <;> simp (config := { decide := true }) [hy, OtherAttr.toVal, optBytes, List.lookup]

theorem kekIdUnpack_eq_prog (v : Bytes) :
    (kekIdUnpack v).map (fun p => (p.1.toVal, p.2)) = RProg.run rcall0 kekIdRProg v none := by
  unfold kekIdUnpack kekIdRProg RProg.run
  simp [RProg.runOps, RProg.runOp, RProg.runRet, St.set, St.get, rcall0, otherAttr_run]
  cases rdSeq v with
  | error e => rfl
  | ok x =>
    simp [bind, Except.bind, Except.map]
    cases rdOctets x.1 with
    | error e => rfl
    | ok y =>
      simp
      cases readHeader y.2 with
      | error e => rfl
      | ok h =>
        simp
        by_cases h1 : h.tag.cls = 0 ∧ h.tag.num = 24
        · simp only [h1, if_true, and_self]
          cases rdGenTime y.2 (some h) with
          | error e => rfl
          | ok g =>
            simp
            cases readHeader g.2 with
            | error e => rfl
            | ok h2 =>
              simp
              by_cases h3 : h2.tag.cls = 0 ∧ h2.tag.num = 16
              · simp only [h3, if_true, and_self]
                cases rdSeq g.2 (some h2) with
                | error e => rfl
                | ok q =>
                  simp
                  cases rdOid q.1 with
                  | error e => rfl
                  | ok o =>
                    by_cases ho : o.2 = [] <;>
                      simp (config := { decide := true }) [ho, KekId.toVal, OtherAttr.toVal, optBytes, List.lookup]
              · simp (config := { decide := true }) [h3, KekId.toVal, optBytes, List.lookup]
        · simp only [h1, if_false]
          by_cases h3 : h.tag.cls = 0 ∧ h.tag.num = 16
          · simp only [h3, if_true, and_self]
            cases rdSeq y.2 (some h) with
            | error e => rfl
            | ok q =>
              simp
              cases rdOid q.1 with
              | error e => rfl
              | ok o =>
                by_cases ho : o.2 = [] <;>
                  simp (config := { decide := true }) [ho, KekId.toVal, OtherAttr.toVal, optBytes, List.lookup]
          · simp (config := { decide := true }) [h3, KekId.toVal, optBytes, List.lookup]

theorem rcall1_kekid (v : Bytes) : rcall1 "KEKIdentifier" v none = (kekIdUnpack v).map (fun p => (p.1.toVal, p.2)) := by
  simp [rcall1, kekIdUnpack_eq_prog]
theorem rcall1_alg (v : Bytes) : rcall1 "AlgorithmIdentifier" v none = (algIdUnpack v).map (fun p => (p.1.toVal, p.2)) := by
  simp (config := { decide := true }) [rcall1, rcall0, algIdUnpack_eq_prog]

theorem kekRi_run (v : Bytes) (h : Option Header) :
    RProg.run rcall1 kekRiRProg v h =
      (do let (c, rest) ← rdSeq v h
          let (ver, c1) ← rdInt c
          let (kid, c2) ← kekIdUnpack c1
          let (alg, c3) ← algIdUnpack c2
          let (ek, _) ← rdOctets c3
          pure ((KekRi.mk ver kid alg ek).toVal, rest)) := by
  unfold kekRiRProg RProg.run
  simp [RProg.runOps, RProg.runOp, RProg.runRet, St.set, St.get, rcall1_kekid, rcall1_alg]
  cases rdSeq v h with
  | error e => rfl
  | ok x =>
    simp [bind, Except.bind, Except.map]
    cases rdInt x.1 with
    | error e => rfl
    | ok i =>
      simp
      cases kekIdUnpack i.2 with
      | error e => rfl
      | ok k =>
        simp
        cases algIdUnpack k.2 with
        | error e => rfl
        | ok a =>
          simp
          cases rdOctets a.2 with
          | error e => rfl
          | ok o => simp (config := { decide := true }) [KekRi.toVal, List.lookup]

theorem recipientInfoUnpack_eq_prog (v : Bytes) :
    (recipientInfoUnpack v).map (fun p => (p.1.toVal, p.2)) = RProg.run rcall2 recipientInfoRProg v none := by
  unfold recipientInfoUnpack recipientInfoRProg RProg.run
  simp [RProg.runOps, RProg.runOp, RProg.runRet, rcall2, kekRi_run]
  cases readHeader v with
  | error e => rfl
  | ok h =>
    simp [bind, Except.bind, Except.map]
    by_cases hc : h.tag.cls = 2 ∧ h.tag.num = 2
    · simp [hc]
      cases rdSeq v (some h) with
      | error e => rfl
      | ok x =>
        simp
        cases rdInt x.1 with
        | error e => rfl
        | ok i =>
          simp
          cases kekIdUnpack i.2 with
          | error e => rfl
          | ok k =>
            simp
            cases algIdUnpack k.2 with
            | error e => rfl
            | ok a =>
              simp
              cases rdOctets a.2 with
              | error e => rfl
              | ok o => simp
    · have hc' : h.tag.cls = 2 → ¬ h.tag.num = 2 := fun a b => hc ⟨a, b⟩
      simp [hc, throw, throwThe, MonadExceptOf.throw]
      rw [if_pos hc']

theorem rcall2_alg (v : Bytes) : rcall2 "AlgorithmIdentifier" v none = (algIdUnpack v).map (fun p => (p.1.toVal, p.2)) := by
  simp (config := { decide := true }) [rcall2, rcall1_alg]

theorem encContentInfoUnpack_eq_prog (v : Bytes) :
    (encContentInfoUnpack v).map (fun p => (p.1.toVal, p.2)) = RProg.run rcall1 encContentInfoRProg v none := by
  unfold encContentInfoUnpack encContentInfoRProg RProg.run
  simp [RProg.runOps, RProg.runOp, RProg.runRet, St.set, St.get, rcall1_alg]
  cases rdSeq v with
  | error e => rfl
  | ok x =>
    simp [bind, Except.bind, Except.map]
    cases rdOid x.1 with
    | error e => rfl
    | ok t =>
      simp
      cases algIdUnpack t.2 with
      | error e => rfl
      | ok a =>
        simp
        by_cases hm : a.2 = []
        · simp (config := { decide := true }) [hm, EncContentInfo.toVal, optBytes, List.lookup]
        · simp [hm]
          cases rdOctets a.2 (some (ctx 0 false)) with
          | error e => rfl
          | ok o => simp (config := { decide := true }) [EncContentInfo.toVal, optBytes, List.lookup]

theorem rcall3_ri (v : Bytes) : rcall3 "RecipientInfo" v none = (recipientInfoUnpack v).map (fun p => (p.1.toVal, p.2)) := by
  simp [rcall3, recipientInfoUnpack_eq_prog]
theorem rcall3_eci (v : Bytes) : rcall3 "EncryptedContentInfo" v none = (encContentInfoUnpack v).map (fun p => (p.1.toVal, p.2)) := by
  simp (config := { decide := true }) [rcall3, rcall2, encContentInfoUnpack_eq_prog]

theorem loop_eq (n : Nat) (b : Bytes) :
    RProg.loop rcall3 "RecipientInfo" n b = (recipientInfosUnpack n b).map (List.map KekRi.toVal) := by
  induction n generalizing b with
  | zero => cases b <;> rfl
  | succ k ih =>
    cases b with
    | nil => rfl
    | cons x xs =>
      simp only [RProg.loop, recipientInfosUnpack, rcall3_ri]
      cases recipientInfoUnpack (x :: xs) with
      | error e => rfl
      | ok r =>
        simp [bind, Except.bind, Except.map, ih]
        cases recipientInfosUnpack k r.2 <;> simp [Except.map]

theorem envelopedDataUnpack_eq_prog (v : Bytes) :
    (envelopedDataUnpack v).map EnvelopedData.toVal = (RProg.run rcall3 envelopedDataRProg v none).map Prod.fst := by
  unfold envelopedDataUnpack envelopedDataRProg RProg.run
  simp [RProg.runOps, RProg.runOp, RProg.runRet, St.set, St.get, rcall3_eci, loop_eq]
  cases rdSeq v with
  | error e => rfl
  | ok x =>
    simp [bind, Except.bind, Except.map]
    cases rdInt x.1 with
    | error e => rfl
    | ok i =>
      simp (config := { decide := true }) [List.lookup]
      by_cases h2 : i.1 = 2
      · simp [h2]
        cases rdSet i.2 with
        | error e => rfl
        | ok st =>
          simp
          cases recipientInfosUnpack st.1.length st.1 with
          | error e => rfl
          | ok ris =>
            simp
            cases encContentInfoUnpack st.2 with
            | error e => rfl
            | ok eci => simp (config := { decide := true }) [EnvelopedData.toVal, List.lookup]
      · simp [h2, throw, throwThe, MonadExceptOf.throw]

theorem contentInfoUnpack_eq_prog (v : Bytes) (h : Header) :
    (contentInfoUnpack v h).map (fun p => contentInfoVal p.1 p.2) = (RProg.run RProg.noCall contentInfoRProg v (some h)).map Prod.fst := by
  unfold contentInfoUnpack contentInfoRProg RProg.run
  simp [RProg.runOps, RProg.runOp, RProg.runRet, St.set, St.get]
  cases rdSeq v (some h) with
  | error e => rfl
  | ok x =>
    simp [bind, Except.bind, Except.map]
    cases rdOid x.1 with
    | error e => rfl
    | ok t =>
      simp
      cases rdOctets t.2 (some (ctx 0 true)) with
      | error e => rfl
      | ok o => simp (config := { decide := true }) [contentInfoVal, List.lookup]

theorem protDescUnpack_eq_prog (v : Bytes) :
    (protDescUnpack v).map Val.bytes = (RProg.run RProg.noCall protDescRProg v none).map Prod.fst := by
  unfold protDescUnpack protDescRProg RProg.run
  simp [RProg.runOps, RProg.runOp, RProg.runRet, St.set, St.get]
  cases rdSeq v with
  | error e => rfl
  | ok x =>
    simp [bind, Except.bind, Except.map]
    cases rdOid x.1 with
    | error e => rfl
    | ok t =>
      simp
      cases rdSeq t.2 with
      | error e => rfl
      | ok s1 =>
        simp
        cases rdSeq s1.1 with
        | error e => rfl
        | ok s2 =>
          simp
          cases rdSeq s2.1 with
          | error e => rfl
          | ok s3 =>
            simp
            cases rdUtf8 s3.1 with
            | error e => rfl
            | ok u1 =>
              simp
              cases rdUtf8 u1.2 with
              | error e => rfl
              | ok u2 =>
                simp (config := { decide := true }) [Cond.holds, St.get, List.lookup]
                by_cases hc : t.fst = oidSidProtector ∧ u1.fst = utf8SID <;> simp [hc, throw, throwThe, MonadExceptOf.throw]

end DpapiNg.Blob
