/-
  `Safe r`: the computation `r` either returns or raises a *deliberate* error (C05).
  A small calculus over the `Except` monad; the `@[simp]` lemmas decompose a `do` block into one
  obligation per primitive step, so a pipeline is safe as soon as its leaves are.
-/
import DpapiNg.Model.Py
namespace DpapiNg

def Safe {α : Type} (r : R α) : Prop := ∀ e, r = .error e → Deliberate e

@[simp] theorem safe_ok {α : Type} (a : α) : Safe (Except.ok a : R α) := by intro e h; cases h
@[simp] theorem safe_pure {α : Type} (a : α) : Safe (pure a : R α) := by intro e h; cases h
@[simp] theorem safe_error {α : Type} (e : PyErr) : Safe (Except.error e : R α) ↔ Deliberate e :=
  ⟨fun h => h e rfl, fun h e' h' => by cases h'; exact h⟩
@[simp] theorem safe_throw {α : Type} (e : PyErr) : Safe (throw e : R α) ↔ Deliberate e := safe_error e

@[simp] theorem deliberate_valueError : Deliberate .valueError := trivial
@[simp] theorem deliberate_notImplemented : Deliberate .notImplemented := trivial
@[simp] theorem deliberate_notEnoughData : Deliberate .notEnoughData := trivial
@[simp] theorem deliberate_invalidTag : Deliberate .invalidTag := trivial
@[simp] theorem deliberate_invalidUnwrap : Deliberate .invalidUnwrap := trivial

theorem safe_bind {α β : Type} {m : R α} {f : α → R β} (hm : Safe m) (hf : ∀ a, m = .ok a → Safe (f a)) : Safe (m >>= f) := by
  cases m with
  | error e => intro e' h; cases h; exact hm e rfl
  | ok a => exact hf a rfl

theorem safe_bind' {α β : Type} {m : R α} {f : α → R β} (hm : Safe m) (hf : ∀ a, Safe (f a)) : Safe (m >>= f) :=
  safe_bind hm fun a _ => hf a

theorem safe_map {α β : Type} {m : R α} {f : α → β} (hm : Safe m) : Safe (m.map f) := by
  cases m with
  | error e => intro e' h; cases h; exact hm e rfl
  | ok a => intro e h; cases h

theorem safe_ite {α : Type} {c : Prop} [Decidable c] {a b : R α} (ha : c → Safe a) (hb : ¬ c → Safe b) : Safe (if c then a else b) := by
  split
  · exact ha ‹_›
  · exact hb ‹_›

/-- what a successful step tells about its result -/
theorem bind_ok_iff {α β : Type} {m : R α} {f : α → R β} {b : β} : (m >>= f) = .ok b ↔ ∃ a, m = .ok a ∧ f a = .ok b := by
  cases m with
  | error e => simp [bind, Except.bind]
  | ok a => simp [bind, Except.bind]

theorem map_ok_iff {α β : Type} {m : R α} {f : α → β} {b : β} : m.map f = .ok b ↔ ∃ a, m = .ok a ∧ f a = b := by
  cases m with
  | error e => simp [Except.map]
  | ok a => simp [Except.map]

/-- `if c: raise e` in the middle of a `do` block (the join-point shape the `do` elaborator produces) -/
theorem safe_guard {β : Type} {c : Prop} [Decidable c] {e : PyErr} {f : PUnit → R β} (he : Deliberate e) (hf : Safe (f ⟨⟩)) :
    Safe (if c then (throw e : R PUnit) >>= f else f ⟨⟩) := by
  split
  · intro e' h; cases h; exact he
  · exact hf

theorem guard_ok_iff {β : Type} {c : Prop} [Decidable c] {e : PyErr} {f : PUnit → R β} {b : β} :
    (if c then (throw e : R PUnit) >>= f else f ⟨⟩) = .ok b ↔ ¬ c ∧ f ⟨⟩ = .ok b := by
  split
  · rename_i h; constructor
    · intro h'; cases h'
    · intro ⟨h', _⟩; exact absurd h h'
  · rename_i h; exact ⟨fun h' => ⟨h, h'⟩, fun h' => h'.2⟩

end DpapiNg
