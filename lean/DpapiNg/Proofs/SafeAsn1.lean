/-
  C05, ASN.1 layer: every reader of `_asn1.py` is `Safe` on every input (no IndexError /
  OverflowError / struct.error can escape), and what it returns is made of octets of its input.
-/
import DpapiNg.Proofs.Safe
import DpapiNg.Model.Asn1
namespace DpapiNg.Asn1
open DpapiNg

theorem safe_unpackOctetNumberAux (b : Bytes) (acc idx : Nat) : Safe (unpackOctetNumberAux b acc idx) := by
  induction b generalizing acc idx with
  | nil => simp [unpackOctetNumberAux]
  | cons e rest ih =>
    simp only [unpackOctetNumberAux]
    split
    · simp
    · exact ih _ _

theorem safe_unpackOctetNumber (b : Bytes) : Safe (unpackOctetNumber b) := safe_unpackOctetNumberAux b 0 0

theorem safe_readLenOctets (k : Nat) (b : Bytes) (acc : Nat) : Safe (readLenOctets k b acc) := by
  induction k generalizing b acc with
  | zero => simp [readLenOctets]
  | succ k ih =>
    cases b with
    | nil => simp [readLenOctets]
    | cons x rest => simp only [readLenOctets]; exact ih _ _

theorem safe_readIdentifier (v : Bytes) : Safe (readIdentifier v) := by
  unfold readIdentifier
  cases v with
  | nil => simp
  | cons o rest =>
    simp only []
    refine safe_bind' ?_ ?_
    · split
      · exact safe_unpackOctetNumber _
      · simp
    · intro ⟨num, cnt⟩
      simp only []
      split <;> simp

theorem safe_readLength (v : Bytes) : Safe (readLength v) := by
  unfold readLength
  cases v with
  | nil => simp
  | cons l rest =>
    simp only []
    split
    · simp
    · split
      · exact safe_bind' (safe_readLenOctets _ _ _) (fun _ => by simp)
      · simp

theorem safe_readHeader (v : Bytes) : Safe (readHeader v) := by
  unfold readHeader
  refine safe_bind' (safe_readIdentifier v) ?_
  intro ⟨tag, n⟩
  refine safe_bind' (safe_readLength _) ?_
  intro ⟨a, b⟩
  simp

theorem safe_validateTag (v : Bytes) (e : Option Tag) (t : Tag) (h : Option Header) : Safe (validateTag v e t h) := by
  unfold validateTag
  refine safe_bind' ?_ ?_
  · cases h with
    | none => exact safe_readHeader v
    | some h => simp
  · intro hd
    simp only []
    repeat' (first | (simp; done) | split)

theorem safe_readInteger (v : Bytes) (t : Option Tag) (h : Option Header) : Safe (readInteger v t h) := by
  unfold readInteger
  refine safe_bind' (safe_validateTag _ _ _ _) ?_
  intro ⟨raw, c⟩
  simp only []
  split <;> simp

theorem safe_readArcs (fuel : Nat) (b : Bytes) : Safe (readArcs fuel b) := by
  induction fuel generalizing b with
  | zero => cases b <;> simp [readArcs]
  | succ f ih =>
    cases b with
    | nil => simp [readArcs]
    | cons x xs =>
      simp only [readArcs]
      refine safe_bind' (safe_unpackOctetNumber _) ?_
      intro ⟨n, k⟩
      exact safe_bind' (ih _) (fun _ => by simp)

theorem safe_readOid (v : Bytes) (t : Option Tag) (h : Option Header) : Safe (readOid v t h) := by
  unfold readOid
  refine safe_bind' (safe_validateTag _ _ _ _) ?_
  intro ⟨raw, c⟩
  simp only []
  cases raw with
  | nil => simp
  | cons f rest => exact safe_bind' (safe_readArcs _ _) (fun _ => by simp)

theorem safe_readOctetString (v : Bytes) (t : Option Tag) (h : Option Header) : Safe (readOctetString v t h) := safe_validateTag _ _ _ _
theorem safe_readSequence (v : Bytes) (t : Option Tag) (h : Option Header) : Safe (readSequence v t h) := safe_validateTag _ _ _ _
theorem safe_readSet (v : Bytes) (t : Option Tag) (h : Option Header) : Safe (readSet v t h) := safe_validateTag _ _ _ _
theorem safe_readUtf8Raw (v : Bytes) (t : Option Tag) (h : Option Header) : Safe (readUtf8Raw v t h) := safe_validateTag _ _ _ _
theorem safe_readGenTimeRaw (v : Bytes) (t : Option Tag) (h : Option Header) : Safe (readGenTimeRaw v t h) := safe_validateTag _ _ _ _
theorem safe_readBoolean (v : Bytes) (t : Option Tag) (h : Option Header) : Safe (readBoolean v t h) := by
  unfold readBoolean
  exact safe_bind' (safe_validateTag _ _ _ _) (fun ⟨_, _⟩ => by simp)
theorem safe_readEnumerated (v : Bytes) (t : Option Tag) (h : Option Header) : Safe (readEnumerated v t h) := by
  unfold readEnumerated; exact safe_readInteger _ _ _

/-- what a successful `_validate_tag` returns: a slice of the view behind the header -/
theorem validateTag_ok {v : Bytes} {e : Option Tag} {t : Tag} {h : Option Header} {c : Bytes} {n : Nat}
    (hv : validateTag v e t h = .ok (c, n)) :
    ∃ hd : Header, c = (v.drop hd.tagLength).take hd.length ∧ n = hd.tagLength + hd.length ∧ hd.length ≤ (v.drop hd.tagLength).length := by
  unfold validateTag at hv
  obtain ⟨hd, _, hv⟩ := bind_ok_iff.mp hv
  cases h with
  | none =>
    simp only [ne_eq, ite_not] at hv
    by_cases h1 : hd.tag = e.getD t
    · rw [if_pos h1] at hv
      by_cases h2 : (v.drop hd.tagLength).length < hd.length
      · rw [if_pos h2] at hv; cases hv
      · rw [if_neg h2] at hv
        cases hv
        exact ⟨hd, rfl, rfl, by omega⟩
    · rw [if_neg h1] at hv; cases hv
  | some h0 =>
    simp only [ne_eq, ite_not] at hv
    by_cases h1 : hd.tag = e.getD h0.tag
    · rw [if_pos h1] at hv
      by_cases h2 : (v.drop hd.tagLength).length < hd.length
      · rw [if_pos h2] at hv; cases hv
      · rw [if_neg h2] at hv
        cases hv
        exact ⟨hd, rfl, rfl, by omega⟩
    · rw [if_neg h1] at hv; cases hv

theorem isBytes_take {b : Bytes} (h : IsBytes b) (n : Nat) : IsBytes (b.take n) := fun x hx => h x (List.mem_of_mem_take hx)
theorem isBytes_drop {b : Bytes} (h : IsBytes b) (n : Nat) : IsBytes (b.drop n) := fun x hx => h x (List.mem_of_mem_drop hx)
theorem isBytes_sliceN {b : Bytes} (h : IsBytes b) (i j : Nat) : IsBytes (Py.sliceN b i j) := isBytes_drop (isBytes_take h j) i

/-- the content `_validate_tag` returns consists of octets of the view -/
theorem validateTag_isBytes {v : Bytes} {e : Option Tag} {t : Tag} {h : Option Header} {c : Bytes} {n : Nat}
    (hb : IsBytes v) (hv : validateTag v e t h = .ok (c, n)) : IsBytes c := by
  obtain ⟨hd, rfl, _, _⟩ := validateTag_ok hv
  exact isBytes_take (isBytes_drop hb _) _

end DpapiNg.Asn1
