/-
  C05, CMS layer: every reader of `_pkcs7.py` / `_blob.py` is `Safe` on every input, and the byte
  strings it hands on (key identifier, encrypted key, content, parameters) are octets of the input.
-/
import DpapiNg.Proofs.SafeAsn1
import DpapiNg.Model.Blob
namespace DpapiNg.Blob
open DpapiNg DpapiNg.Asn1 DpapiNg.Gkdi

theorem safe_rdOid (v : Bytes) : Safe (rdOid v) := safe_map (safe_readOid _ _ _)
theorem safe_rdInt (v : Bytes) : Safe (rdInt v) := safe_map (safe_readInteger _ _ _)
theorem safe_rdOctets (v : Bytes) (t : Option Tag) : Safe (rdOctets v t) := safe_map (safe_readOctetString _ _ _)
theorem safe_rdSeq (v : Bytes) (h : Option Header) : Safe (rdSeq v h) := safe_map (safe_readSequence _ _ _)
theorem safe_rdSet (v : Bytes) : Safe (rdSet v) := safe_map (safe_readSet _ _ _)
theorem safe_rdUtf8 (v : Bytes) : Safe (rdUtf8 v) := by
  unfold rdUtf8
  exact safe_bind' (safe_readUtf8Raw _ _ _) (fun ⟨a, n⟩ => by simp only []; split <;> simp)
theorem safe_rdGenTime (v : Bytes) (h : Option Header) : Safe (rdGenTime v h) := by
  unfold rdGenTime
  exact safe_bind' (safe_readGenTimeRaw _ _ _) (fun ⟨a, n⟩ => by simp only []; split <;> simp)

/-! byte preservation of the reader steps -/
theorem rdOctets_isBytes {v c r : Bytes} {t : Option Tag} (hb : IsBytes v) (h : rdOctets v t = .ok (c, r)) : IsBytes c ∧ IsBytes r := by
  unfold rdOctets readOctetString at h
  obtain ⟨⟨a, n⟩, h1, h2⟩ := map_ok_iff.mp h
  cases h2
  exact ⟨validateTag_isBytes hb h1, isBytes_drop hb _⟩
theorem rdSeq_isBytes {v c r : Bytes} {hd : Option Header} (hb : IsBytes v) (h : rdSeq v hd = .ok (c, r)) : IsBytes c ∧ IsBytes r := by
  unfold rdSeq readSequence at h
  obtain ⟨⟨a, n⟩, h1, h2⟩ := map_ok_iff.mp h
  cases h2
  exact ⟨validateTag_isBytes hb h1, isBytes_drop hb _⟩
theorem rdSet_isBytes {v c r : Bytes} (hb : IsBytes v) (h : rdSet v = .ok (c, r)) : IsBytes c ∧ IsBytes r := by
  unfold rdSet readSet at h
  obtain ⟨⟨a, n⟩, h1, h2⟩ := map_ok_iff.mp h
  cases h2
  exact ⟨validateTag_isBytes hb h1, isBytes_drop hb _⟩
theorem rdOid_isBytes {v r : Bytes} {a : List Nat} (hb : IsBytes v) (h : rdOid v = .ok (a, r)) : IsBytes r := by
  unfold rdOid at h
  obtain ⟨⟨a', n⟩, _, h2⟩ := map_ok_iff.mp h
  cases h2
  exact isBytes_drop hb _
theorem rdInt_isBytes {v r : Bytes} {a : Int} (hb : IsBytes v) (h : rdInt v = .ok (a, r)) : IsBytes r := by
  unfold rdInt at h
  obtain ⟨⟨a', n⟩, _, h2⟩ := map_ok_iff.mp h
  cases h2
  exact isBytes_drop hb _
theorem rdUtf8_isBytes {v c r : Bytes} (hb : IsBytes v) (h : rdUtf8 v = .ok (c, r)) : IsBytes c ∧ IsBytes r := by
  unfold rdUtf8 readUtf8Raw at h
  obtain ⟨⟨a, n⟩, h1, h2⟩ := bind_ok_iff.mp h
  simp only [] at h2
  split at h2
  · cases h2; exact ⟨validateTag_isBytes hb h1, isBytes_drop hb _⟩
  · cases h2
theorem rdGenTime_isBytes {v c r : Bytes} {hd : Option Header} (hb : IsBytes v) (h : rdGenTime v hd = .ok (c, r)) : IsBytes c ∧ IsBytes r := by
  unfold rdGenTime readGenTimeRaw at h
  obtain ⟨⟨a, n⟩, h1, h2⟩ := bind_ok_iff.mp h
  simp only [] at h2
  split at h2
  · cases h2; exact ⟨validateTag_isBytes hb h1, isBytes_drop hb _⟩
  · cases h2

/-! AlgorithmIdentifier -/
theorem safe_algIdUnpack (v : Bytes) : Safe (algIdUnpack v) := by
  unfold algIdUnpack
  refine safe_bind' (safe_rdSeq _ _) (fun ⟨c, rest⟩ => ?_)
  exact safe_bind' (safe_rdOid _) (fun ⟨alg, c'⟩ => by simp)

theorem algIdUnpack_isBytes {v r : Bytes} {a : AlgId} (hb : IsBytes v) (h : algIdUnpack v = .ok (a, r)) :
    IsBytes r ∧ ∀ p, a.parameters = some p → IsBytes p := by
  unfold algIdUnpack at h
  obtain ⟨⟨c, rest⟩, h1, h⟩ := bind_ok_iff.mp h
  obtain ⟨⟨alg, c'⟩, h2, h⟩ := bind_ok_iff.mp h
  have ⟨hc, hr⟩ := rdSeq_isBytes hb h1
  have hc' := rdOid_isBytes hc h2
  cases h
  refine ⟨hr, fun p hp => ?_⟩
  simp only [] at hp
  split at hp
  · cases hp
  · cases hp; exact hc'

/-! ProtectionDescriptor -/
theorem safe_protDescUnpack (v : Bytes) : Safe (protDescUnpack v) := by
  unfold protDescUnpack
  refine safe_bind' (safe_rdSeq _ _) (fun ⟨c, _⟩ => ?_)
  refine safe_bind' (safe_rdOid _) (fun ⟨ct, c1⟩ => ?_)
  refine safe_bind' (safe_rdSeq _ _) (fun ⟨s1, _⟩ => ?_)
  refine safe_bind' (safe_rdSeq _ _) (fun ⟨s2, _⟩ => ?_)
  refine safe_bind' (safe_rdSeq _ _) (fun ⟨s3, _⟩ => ?_)
  refine safe_bind' (safe_rdUtf8 _) (fun ⟨vt, r1⟩ => ?_)
  refine safe_bind' (safe_rdUtf8 _) (fun ⟨val, _⟩ => ?_)
  simp only []
  split <;> simp

/-! KEKIdentifier -/
theorem safe_kekIdUnpack (v : Bytes) : Safe (kekIdUnpack v) := by
  unfold kekIdUnpack
  refine safe_bind' (safe_rdSeq _ _) (fun ⟨c, rest⟩ => ?_)
  refine safe_bind' (safe_rdOctets _ _) (fun ⟨ki, c1⟩ => ?_)
  refine safe_bind' (safe_readHeader _) (fun h => ?_)
  refine safe_bind' ?_ (fun ⟨date, c2, h2⟩ => ?_)
  · split
    · refine safe_bind' (safe_rdGenTime _ _) (fun ⟨d, c2⟩ => ?_)
      exact safe_bind' (safe_readHeader _) (fun _ => by simp)
    · simp
  · refine safe_bind' ?_ (fun _ => by simp)
    split
    · refine safe_bind' (safe_rdSeq _ _) (fun ⟨oc, _⟩ => ?_)
      exact safe_bind' (safe_rdOid _) (fun ⟨id, oc1⟩ => by simp)
    · simp

theorem kekIdUnpack_isBytes {v r : Bytes} {k : KekId} (hb : IsBytes v) (h : kekIdUnpack v = .ok (k, r)) :
    IsBytes k.keyIdentifier ∧ IsBytes r := by
  unfold kekIdUnpack at h
  obtain ⟨⟨c, rest⟩, h1, h⟩ := bind_ok_iff.mp h
  obtain ⟨⟨ki, c1⟩, h2, h⟩ := bind_ok_iff.mp h
  obtain ⟨hd, _, h⟩ := bind_ok_iff.mp h
  obtain ⟨⟨date, c2, hd2⟩, _, h⟩ := bind_ok_iff.mp h
  obtain ⟨other, _, h⟩ := bind_ok_iff.mp h
  have ⟨hc, hr⟩ := rdSeq_isBytes hb h1
  have ⟨hki, _⟩ := rdOctets_isBytes hc h2
  cases h
  exact ⟨hki, hr⟩

/-! KEKRecipientInfo and the `while` loop over the SET -/
theorem safe_recipientInfoUnpack (v : Bytes) : Safe (recipientInfoUnpack v) := by
  unfold recipientInfoUnpack
  refine safe_bind' (safe_readHeader _) (fun h => ?_)
  refine safe_guard (by simp) ?_
  refine safe_bind' (safe_rdSeq _ _) (fun ⟨c, rest⟩ => ?_)
  refine safe_bind' (safe_rdInt _) (fun ⟨ver, c1⟩ => ?_)
  refine safe_bind' (safe_kekIdUnpack _) (fun ⟨kid, c2⟩ => ?_)
  refine safe_bind' (safe_algIdUnpack _) (fun ⟨alg, c3⟩ => ?_)
  exact safe_bind' (safe_rdOctets _ _) (fun ⟨ek, _⟩ => by simp)

theorem recipientInfoUnpack_isBytes {v r : Bytes} {ri : KekRi} (hb : IsBytes v) (h : recipientInfoUnpack v = .ok (ri, r)) :
    IsBytes ri.kekid.keyIdentifier ∧ IsBytes r := by
  unfold recipientInfoUnpack at h
  obtain ⟨hd, _, h⟩ := bind_ok_iff.mp h
  obtain ⟨_, h⟩ := guard_ok_iff.mp h
  obtain ⟨⟨c, rest⟩, h1, h⟩ := bind_ok_iff.mp h
  obtain ⟨⟨ver, c1⟩, h2, h⟩ := bind_ok_iff.mp h
  obtain ⟨⟨kid, c2⟩, h3, h⟩ := bind_ok_iff.mp h
  obtain ⟨⟨alg, c3⟩, _, h⟩ := bind_ok_iff.mp h
  obtain ⟨⟨ek, _⟩, _, h⟩ := bind_ok_iff.mp h
  have ⟨hc, hr⟩ := rdSeq_isBytes hb h1
  have hc1 := rdInt_isBytes hc h2
  have ⟨hk, _⟩ := kekIdUnpack_isBytes hc1 h3
  cases h
  exact ⟨hk, hr⟩

theorem safe_recipientInfosUnpack (fuel : Nat) (v : Bytes) : Safe (recipientInfosUnpack fuel v) := by
  induction fuel generalizing v with
  | zero => cases v <;> simp [recipientInfosUnpack]
  | succ f ih =>
    cases v with
    | nil => simp [recipientInfosUnpack]
    | cons x xs =>
      simp only [recipientInfosUnpack]
      refine safe_bind' (safe_recipientInfoUnpack _) (fun ⟨ri, rest⟩ => ?_)
      exact safe_bind' (ih _) (fun _ => by simp)

theorem recipientInfosUnpack_isBytes (fuel : Nat) {v : Bytes} {ris : List KekRi} (hb : IsBytes v)
    (h : recipientInfosUnpack fuel v = .ok ris) : ∀ ri ∈ ris, IsBytes ri.kekid.keyIdentifier := by
  induction fuel generalizing v ris with
  | zero => cases v <;> (simp only [recipientInfosUnpack] at h; cases h; simp)
  | succ f ih =>
    cases v with
    | nil => simp only [recipientInfosUnpack] at h; cases h; simp
    | cons x xs =>
      simp only [recipientInfosUnpack] at h
      obtain ⟨⟨ri, rest⟩, h1, h⟩ := bind_ok_iff.mp h
      obtain ⟨more, h2, h⟩ := bind_ok_iff.mp h
      have ⟨hk, hr⟩ := recipientInfoUnpack_isBytes hb h1
      cases h
      intro r hr'
      rcases List.mem_cons.mp hr' with rfl | hm
      · exact hk
      · exact ih hr h2 r hm

/-! EncryptedContentInfo / EnvelopedData / ContentInfo -/
theorem safe_encContentInfoUnpack (v : Bytes) : Safe (encContentInfoUnpack v) := by
  unfold encContentInfoUnpack
  refine safe_bind' (safe_rdSeq _ _) (fun ⟨c, rest⟩ => ?_)
  refine safe_bind' (safe_rdOid _) (fun ⟨t, c1⟩ => ?_)
  refine safe_bind' (safe_algIdUnpack _) (fun ⟨a, c2⟩ => ?_)
  refine safe_bind' ?_ (fun _ => by simp)
  split
  · simp
  · exact safe_map (safe_rdOctets _ _)

theorem safe_envelopedDataUnpack (v : Bytes) : Safe (envelopedDataUnpack v) := by
  unfold envelopedDataUnpack
  refine safe_bind' (safe_rdSeq _ _) (fun ⟨c, _⟩ => ?_)
  refine safe_bind' (safe_rdInt _) (fun ⟨ver, c1⟩ => ?_)
  refine safe_guard (by simp) ?_
  refine safe_bind' (safe_rdSet _) (fun ⟨setc, c2⟩ => ?_)
  refine safe_bind' (safe_recipientInfosUnpack _ _) (fun ris => ?_)
  exact safe_bind' (safe_encContentInfoUnpack _) (fun ⟨eci, _⟩ => by simp)

theorem envelopedDataUnpack_isBytes {v : Bytes} {ed : EnvelopedData} (hb : IsBytes v) (h : envelopedDataUnpack v = .ok ed) :
    ∀ ri ∈ ed.recipientInfos, IsBytes ri.kekid.keyIdentifier := by
  unfold envelopedDataUnpack at h
  obtain ⟨⟨c, _⟩, h1, h⟩ := bind_ok_iff.mp h
  obtain ⟨⟨ver, c1⟩, h2, h⟩ := bind_ok_iff.mp h
  obtain ⟨_, h⟩ := guard_ok_iff.mp h
  obtain ⟨⟨setc, c2⟩, h3, h⟩ := bind_ok_iff.mp h
  obtain ⟨ris, h4, h⟩ := bind_ok_iff.mp h
  obtain ⟨⟨eci, _⟩, _, h⟩ := bind_ok_iff.mp h
  have ⟨hc, _⟩ := rdSeq_isBytes hb h1
  have hc1 := rdInt_isBytes hc h2
  have ⟨hset, _⟩ := rdSet_isBytes hc1 h3
  cases h
  exact recipientInfosUnpack_isBytes _ hset h4

theorem safe_contentInfoUnpack (v : Bytes) (hd : Header) : Safe (contentInfoUnpack v hd) := by
  unfold contentInfoUnpack
  refine safe_bind' (safe_rdSeq _ _) (fun ⟨c, _⟩ => ?_)
  refine safe_bind' (safe_rdOid _) (fun ⟨t, c1⟩ => ?_)
  exact safe_bind' (safe_rdOctets _ _) (fun ⟨content, _⟩ => by simp)

theorem contentInfoUnpack_isBytes {v content : Bytes} {hd : Header} {t : List Nat} (hb : IsBytes v)
    (h : contentInfoUnpack v hd = .ok (t, content)) : IsBytes content := by
  unfold contentInfoUnpack at h
  obtain ⟨⟨c, _⟩, h1, h⟩ := bind_ok_iff.mp h
  obtain ⟨⟨t', c1⟩, h2, h⟩ := bind_ok_iff.mp h
  obtain ⟨⟨ct, _⟩, h3, h⟩ := bind_ok_iff.mp h
  have ⟨hc, _⟩ := rdSeq_isBytes hb h1
  have hc1 := rdOid_isBytes hc h2
  have ⟨hct, _⟩ := rdOctets_isBytes hc1 h3
  cases h
  exact hct

/-! KeyIdentifier (`_blob.py`) -/
theorem safe_readName (v : Bytes) (n : Nat) : Safe (readName v n) := by
  unfold readName; simp only []; split <;> simp
theorem safe_uuidOf (b : Bytes) : Safe (uuidOf b) := by unfold uuidOf; split <;> simp

theorem safe_keyIdUnpack (v : Bytes) : Safe (keyIdUnpack v) := by
  unfold keyIdUnpack
  split
  · simp
  · refine safe_bind' (safe_uuidOf _) (fun rk => ?_)
    refine safe_bind' (safe_readName _ _) (fun d => ?_)
    exact safe_bind' (safe_readName _ _) (fun f => by simp)

theorem keyIdUnpack_isBytes {v : Bytes} {k : KeyId} (hb : IsBytes v) (h : keyIdUnpack v = .ok k) : IsBytes k.keyInfo := by
  unfold keyIdUnpack at h
  split at h
  · cases h
  · obtain ⟨rk, _, h⟩ := bind_ok_iff.mp h
    obtain ⟨d, _, h⟩ := bind_ok_iff.mp h
    obtain ⟨f, _, h⟩ := bind_ok_iff.mp h
    cases h
    exact isBytes_take (isBytes_drop hb _) _

/-! DPAPINGBlob.unpack -/
theorem safe_blobUnpack (data : Bytes) : Safe (blobUnpack data) := by
  unfold blobUnpack
  refine safe_bind' (safe_readHeader _) (fun hd => ?_)
  refine safe_bind' (safe_contentInfoUnpack _ _) (fun ⟨ct, content⟩ => ?_)
  refine safe_guard (by simp) ?_
  refine safe_bind' (safe_envelopedDataUnpack _) (fun ed => ?_)
  split
  · rename_i ri _
    refine safe_guard (by simp) ?_
    refine safe_bind' (safe_keyIdUnpack _) (fun kid => ?_)
    split
    · refine safe_guard (by simp) ?_
      exact safe_bind' (safe_protDescUnpack _) (fun sid => by simp)
    · simp
  · simp

theorem blobUnpack_isBytes {data : Bytes} {b : Blob} (hb : IsBytes data) (h : blobUnpack data = .ok b) : IsBytes b.keyId.keyInfo := by
  unfold blobUnpack at h
  obtain ⟨hd, _, h⟩ := bind_ok_iff.mp h
  obtain ⟨⟨ct, content⟩, h1, h⟩ := bind_ok_iff.mp h
  obtain ⟨_, h⟩ := guard_ok_iff.mp h
  obtain ⟨ed, h2, h⟩ := bind_ok_iff.mp h
  have hcontent := contentInfoUnpack_isBytes (isBytes_take hb _) h1
  have hris := envelopedDataUnpack_isBytes hcontent h2
  split at h
  · rename_i ri hri
    obtain ⟨_, h⟩ := guard_ok_iff.mp h
    obtain ⟨kid, h3, h⟩ := bind_ok_iff.mp h
    have hki := hris ri (by rw [hri]; simp)
    have hk := keyIdUnpack_isBytes hki h3
    split at h
    · obtain ⟨_, h⟩ := guard_ok_iff.mp h
      obtain ⟨sid, _, h⟩ := bind_ok_iff.mp h
      cases h
      exact hk
    · cases h
  · cases h

end DpapiNg.Blob
