/-
  C05, key layer: `KeyCache._get_key`, `compute_l1_key` / `compute_l2_key`, `compute_kek`, the two
  decrypt primitives and `_decrypt_blob` are `Safe` — under the stated behaviour of the
  third-party primitives (`CryptoSafe`: they raise nothing but InvalidTag / InvalidUnwrap / ValueError).
-/
import DpapiNg.Proofs.SafeBlob
import DpapiNg.Proofs.PowMod
import DpapiNg.Proofs.Slices
import DpapiNg.Model.Client
namespace DpapiNg

/-- what C05 assumes of `cryptography`: its primitives fail only with deliberate error types -/
structure CryptoSafe (C : Crypto) : Prop where
  keyUnwrap : ∀ k w, Safe (C.keyUnwrap k w)
  gcmDecrypt : ∀ k n c, Safe (C.gcmDecrypt k n c)
  ecExchange : ∀ cv d x y, Safe (C.ecExchange cv d x y)

namespace Gkdi
open DpapiNg.Asn1

theorem safe_kdfParamsUnpack (v : Bytes) : Safe (kdfParamsUnpack v) := by
  unfold kdfParamsUnpack
  split
  · simp
  · simp only []; split <;> simp

theorem safe_hashOfName (n : Bytes) : Safe (hashOfName n) := by
  unfold hashOfName
  repeat' (first | (simp; done) | split)

theorem toBytesLESigned_ok32 (n : Int) (h : -0x80000000 ≤ n ∧ n ≤ 0x7FFFFFFF) : ∃ b, Py.toBytesLESigned n 4 = .ok b := by
  unfold Py.toBytesLESigned
  have h4 : ¬ (4 : Nat) = 0 := by omega
  have hr : -(2 ^ (8 * 4 - 1) : Int) ≤ n ∧ n < (2 ^ (8 * 4 - 1) : Int) := by
    have : (2 ^ (8 * 4 - 1) : Int) = 0x80000000 := by decide
    rw [this]; omega
  simp only [h4, if_false, hr, and_self, if_true]
  exact ⟨_, rfl⟩

theorem safe_kdfContext (g : Bytes) (l0 l1 l2 : Int) : Safe (kdfContext g l0 l1 l2) := by
  unfold kdfContext
  split
  · simp
  · rename_i h
    have h := Classical.not_not.mp h
    obtain ⟨a, ha⟩ := toBytesLESigned_ok32 l0 ⟨h.1, h.2.1⟩
    obtain ⟨b, hb⟩ := toBytesLESigned_ok32 l1 ⟨h.2.2.1, h.2.2.2.1⟩
    obtain ⟨c, hc⟩ := toBytesLESigned_ok32 l2 ⟨h.2.2.2.2.1, h.2.2.2.2.2⟩
    simp [ha, hb, hc, bind, Except.bind]

theorem safe_computeL1 (C : Crypto) (sd rk : Bytes) (l0 : Nat) (key : Bytes) (alg : Hash) : Safe (computeL1 C sd rk l0 key alg) := by
  unfold computeL1
  refine safe_bind' (safe_kdfContext _ _ _ _) (fun c0 => ?_)
  exact safe_bind' (safe_kdfContext _ _ _ _) (fun c1 => by simp)

theorem safe_computeL2 (C : Crypto) (alg : Hash) (r1 r2 : Nat) (rk : Envelope) : Safe (computeL2 C alg r1 r2 rk) := by
  unfold computeL2
  simp only []
  split
  · simp
  · split
    · simp
    · split <;> simp

theorem safe_ffcKeyUnpack (v : Bytes) : Safe (ffcKeyUnpack v) := by
  unfold ffcKeyUnpack
  split
  · simp
  · simp only []; split <;> simp

theorem safe_ffcParamsUnpack (v : Bytes) : Safe (ffcParamsUnpack v) := by
  unfold ffcParamsUnpack
  split <;> simp

theorem safe_ecdhKeyUnpack (v : Bytes) : Safe (ecdhKeyUnpack v) := by
  unfold ecdhKeyUnpack
  split <;> simp

theorem fromBE_lt (b : Bytes) (h : IsBytes b) : Py.fromBE b < 256 ^ b.length := by
  unfold Py.fromBE
  have := Py.fromLE_lt b.reverse (fun x hx => h x (List.mem_reverse.mp hx))
  simpa using this

/-- a successfully unpacked FFC key has a modulus that fits its declared width (the D13 guard makes the slices full-width) -/
theorem ffcKeyUnpack_fieldOrder_lt {v : Bytes} {k : FfcKey} (hb : IsBytes v) (h : ffcKeyUnpack v = .ok k) :
    k.fieldOrder < 256 ^ k.keyLength := by
  unfold ffcKeyUnpack at h
  split at h
  · cases h
  · simp only [] at h
    split at h
    · cases h
    · rename_i hlen
      cases h
      simp only []
      have hs : IsBytes (Py.sliceN v 8 (8 + Py.fromLE (Py.sliceN v 4 8))) := isBytes_sliceN hb _ _
      have hl : (Py.sliceN v 8 (8 + Py.fromLE (Py.sliceN v 4 8))).length ≤ Py.fromLE (Py.sliceN v 4 8) := by
        simp [Py.sliceN]; omega
      exact Nat.lt_of_lt_of_le (fromBE_lt _ hs) (Nat.pow_le_pow_right (by omega) hl)

theorem safe_computeKek (C : Crypto) (hC : CryptoSafe C) (alg : Hash) (sa sp priv pub : Bytes) (hb : IsBytes pub) :
    Safe (computeKek C alg sa sp priv pub) := by
  unfold computeKek
  refine safe_bind ?_ (fun ⟨shared, sh⟩ _ => by simp)
  split
  · -- DH
    refine safe_bind (safe_ffcKeyUnpack _) (fun k hk => ?_)
    have hfo := ffcKeyUnpack_fieldOrder_lt hb hk
    have hfinal : Safe (do let b ← Py.toBytesBE ↑(Py.powMod k.publicKey (Py.fromBE priv) k.fieldOrder) k.keyLength; pure (b, Hash.sha256) : R (Bytes × Hash)) := by
      by_cases hp : k.fieldOrder = 0
      · have : Py.powMod k.publicKey (Py.fromBE priv) k.fieldOrder < 256 ^ k.keyLength := by
          have h0 : Py.powMod k.publicKey (Py.fromBE priv) k.fieldOrder = 0 := by rw [hp]; unfold Py.powMod; simp
          rw [h0]; omega
        rw [Py.toBytesBE_ok _ _ this]; simp [bind, Except.bind]
      · have hlt : Py.powMod k.publicKey (Py.fromBE priv) k.fieldOrder < 256 ^ k.keyLength :=
          Nat.lt_trans (Py.powMod_lt _ _ _ (by omega)) hfo
        rw [Py.toBytesBE_ok _ _ hlt]; simp [bind, Except.bind]
    refine safe_ite (fun _ => ?_) (fun _ => ?_)
    · refine safe_bind' (safe_ffcParamsUnpack _) (fun p => ?_)
      exact safe_guard trivial (safe_guard trivial (safe_guard trivial hfinal))
    · exact safe_guard trivial (safe_guard trivial hfinal)
  · split
    · refine safe_bind' (safe_ecdhKeyUnpack _) (fun k => ?_)
      exact safe_bind' (hC.ecExchange _ _ _ _) (fun s => by simp)
    · simp

theorem safe_getKek (C : Crypto) (hC : CryptoSafe C) (e : Envelope) (kid : KeyId) (hb : IsBytes kid.keyInfo) : Safe (getKek C e kid) := by
  unfold getKek
  split
  · simp
  · split
    · simp
    · split
      · simp
      · refine safe_bind' (safe_kdfParamsUnpack _) (fun hn => ?_)
        refine safe_bind' (safe_hashOfName _) (fun alg => ?_)
        refine safe_bind' (safe_computeL2 _ _ _ _ _) (fun l2 => ?_)
        split
        · exact safe_computeKek C hC _ _ _ _ _ hb
        · simp

end Gkdi

namespace Client
open DpapiNg.Gkdi DpapiNg.Blob DpapiNg.Asn1

theorem safe_targetSdOf (sid : Bytes) : Safe (targetSdOf sid) := by
  unfold targetSdOf SecDesc.targetSdOfStr
  refine safe_map ?_
  unfold SecDesc.parseSidStr
  simp only []
  split
  · simp
  · split
    · split
      · simp
      · split <;> simp
    · simp

theorem safe_cekDecrypt (C : Crypto) (hC : CryptoSafe C) (alg : List Nat) (kek v : Bytes) : Safe (cekDecrypt C alg kek v) := by
  unfold cekDecrypt; split
  · exact hC.keyUnwrap _ _
  · simp

theorem safe_gcmIv (p : Option Bytes) : Safe (gcmIv p) := by
  unfold gcmIv
  split
  · simp
  · refine safe_bind' (safe_rdSeq _ _) (fun ⟨c, _⟩ => ?_)
    exact safe_bind' (safe_rdOctets _ _) (fun ⟨iv, _⟩ => by simp)

theorem safe_contentDecrypt (C : Crypto) (hC : CryptoSafe C) (alg : List Nat) (p : Option Bytes) (cek v : Bytes) :
    Safe (contentDecrypt C alg p cek v) := by
  unfold contentDecrypt; split
  · exact safe_bind' (safe_gcmIv _) (fun iv => hC.gcmDecrypt _ _ _)
  · simp

theorem safe_decryptBlob (C : Crypto) (hC : CryptoSafe C) (b : Blob) (key : Envelope) (hb : IsBytes b.keyId.keyInfo) :
    Safe (decryptBlob C b key) := by
  unfold decryptBlob
  refine safe_bind' (safe_getKek C hC _ _ hb) (fun kek => ?_)
  exact safe_bind' (safe_cekDecrypt C hC _ _ _) (fun cek => safe_contentDecrypt C hC _ _ _ _)

theorem safe_rootEnv (C : Crypto) (r : RootKey) (k : CKey) : Safe (rootEnv C r k) := by
  unfold rootEnv
  refine safe_bind' (safe_kdfParamsUnpack _) (fun hn => ?_)
  refine safe_bind' (safe_hashOfName _) (fun alg => ?_)
  exact safe_bind' (safe_computeL1 _ _ _ _ _ _) (fun s => by simp)

/-- `_get_key` fails only where deriving the root-key seed fails, i.e. deliberately -/
theorem cacheGet_fail_deliberate (C : Crypto) (s : CState) (sd rk : Bytes) (l0 l1 l2 : Nat) (e : PyErr) (s' : CState)
    (h : cacheGet C s sd rk l0 l1 l2 = (.fail e, s')) : Deliberate e := by
  unfold cacheGet Cache.getKey at h
  have key : ∀ k, Cache.fromRoot rkOf (rootEnv C) s k = (.fail e, s') → Deliberate e := by
    intro k hk
    unfold Cache.fromRoot at hk
    split at hk
    · rename_i r _
      split at hk
      · cases hk
      · rename_i e' he'
        cases hk
        exact safe_rootEnv C r k e he'
    · cases hk
  split at h
  · split at h
    · cases h
    · exact key _ h
  · exact key _ h

end Client
end DpapiNg
