import DpapiNg.Spec.Dtyp
import DpapiNg.Proofs.PyLemmas
namespace DpapiNg.SecDesc
open DpapiNg DpapiNg.Spec.Dtyp

theorem toLE4 (x : Nat) : Py.toLE x 4 = [x % 256, x / 256 % 256, x / 256 / 256 % 256, x / 256 / 256 / 256 % 256] := by
  simp [Py.toLE]

theorem toLE2 (x : Nat) : Py.toLE x 2 = [x % 256, x / 256 % 256] := by simp [Py.toLE]

theorem toBE6 (x : Nat) : Py.toBE x 6 = [x / 256 / 256 / 256 / 256 / 256 % 256, x / 256 / 256 / 256 / 256 % 256,
    x / 256 / 256 / 256 % 256, x / 256 / 256 % 256, x / 256 % 256, x % 256] := by
  simp [Py.toBE, Py.toLE]

theorem fromLE4 (x : Nat) (h : x < 2 ^ 32) :
    Py.fromLE [x % 256, x / 256 % 256, x / 256 / 256 % 256, x / 256 / 256 / 256 % 256] = x := by
  simp only [Py.fromLE]; omega

theorem fromLE2 (x : Nat) (h : x < 2 ^ 16) : Py.fromLE [x % 256, x / 256 % 256] = x := by
  simp only [Py.fromLE]; omega

theorem readSubs_ok (subs : List Nat) (h : ∀ x ∈ subs, x < 2 ^ 32) (rest : Bytes) :
    readSubs subs.length ((subs.map (Py.toLE · 4)).flatten ++ rest) = some (subs, rest) := by
  induction subs with
  | nil => simp [readSubs]
  | cons x xs ih =>
    have hx : x < 2 ^ 32 := h x (by simp)
    have hxs : ∀ y ∈ xs, y < 2 ^ 32 := fun y hy => h y (by simp [hy])
    have ih' := ih hxs
    rw [List.map_cons, List.flatten_cons, toLE4 x]
    simp only [List.length_cons, List.cons_append, List.nil_append, readSubs, ih', Option.map_some, fromLE4 x hx]

theorem sidBytes_length (s : Sid) : (sidBytes s).length = 8 + 4 * s.subs.length := by
  simp only [sidBytes, List.length_append, List.length_cons, List.length_nil, Py.toBE_length]
  have : ((s.subs.map (Py.toLE · 4)).flatten).length = 4 * s.subs.length := by
    induction s.subs with
    | nil => rfl
    | cons x xs ih => simp only [List.map_cons, List.flatten_cons, List.length_append, Py.toLE_length, ih, List.length_cons]; omega
  omega

/-- the independent MS-DTYP SID parser inverts `sidBytes` -/
theorem parseSid_sidBytes (s : Sid) (h : s.WF) (rest : Bytes) :
    parseSid (sidBytes s ++ rest) = some (s, rest) := by
  obtain ⟨hr, ha, h1, h15, hs⟩ := h
  obtain ⟨rev, auth, subs⟩ := s
  simp only at hr ha h1 h15 hs
  simp only [sidBytes, toBE6, List.cons_append, List.nil_append, List.append_assoc, parseSid, readSubs_ok subs hs rest,
    Option.map_some]
  congr 3
  simp only [Py.fromBE, List.reverse_cons, List.reverse_nil, List.nil_append, List.cons_append, Py.fromLE]
  omega

theorem parseAce_aceBytes (s : Sid) (h : s.WF) (mask : Nat) (hm : mask < 2 ^ 32) (rest : Bytes) :
    parseAce (aceBytes (sidBytes s) mask ++ rest) = some (⟨0, 0, mask, s⟩, rest) := by
  have hlen := sidBytes_length s
  have h15 := h.2.2.2.1
  simp only [aceBytes, toLE2, toLE4, List.cons_append, List.nil_append, List.append_assoc, parseAce,
    parseSid_sidBytes s h rest]
  have e : (sidBytes s ++ rest).length - rest.length = (sidBytes s).length := by simp
  rw [e, fromLE2 _ (by omega), fromLE4 _ hm]
  simp

theorem aceBytes_length (sid : Bytes) (mask : Nat) : (aceBytes sid mask).length = 8 + sid.length := by
  simp [aceBytes]; omega

end DpapiNg.SecDesc
