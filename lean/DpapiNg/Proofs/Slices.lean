/-
  Slices of concatenations at known offsets; Python's clamped slices on natural indices.
-/
import DpapiNg.Proofs.PyLemmas
namespace DpapiNg.Py

theorem clampIdx_nat (n i : Nat) : clampIdx n (i : Int) = min i n := by
  unfold clampIdx
  have : ¬ ((i : Int) < 0) := by omega
  simp [this]

theorem slice_nat {α} (xs : List α) (i j : Nat) : slice xs (i : Int) (j : Int) = (xs.take j).drop i := by
  unfold slice
  simp only [clampIdx_nat]
  by_cases hj : j ≤ xs.length
  · rw [Nat.min_eq_left hj]
    by_cases hi : i ≤ xs.length
    · rw [Nat.min_eq_left hi]
    · have h1 : min i xs.length = xs.length := Nat.min_eq_right (by omega)
      rw [h1, List.drop_eq_nil_of_le (by simp; omega), List.drop_eq_nil_of_le (by simp; omega)]
  · have h2 : min j xs.length = xs.length := Nat.min_eq_right (by omega)
    rw [h2, List.take_of_length_le (Nat.le_refl _), List.take_of_length_le (by omega)]
    by_cases hi : i ≤ xs.length
    · rw [Nat.min_eq_left hi]
    · have h1 : min i xs.length = xs.length := Nat.min_eq_right (by omega)
      rw [h1, List.drop_eq_nil_of_le (Nat.le_refl _), List.drop_eq_nil_of_le (by omega)]

theorem sliceFrom_nat {α} (xs : List α) (i : Nat) : sliceFrom xs (i : Int) = xs.drop i := by
  unfold sliceFrom
  rw [clampIdx_nat]
  by_cases hi : i ≤ xs.length
  · rw [Nat.min_eq_left hi]
  · have h1 : min i xs.length = xs.length := Nat.min_eq_right (by omega)
    rw [h1, List.drop_eq_nil_of_le (Nat.le_refl _), List.drop_eq_nil_of_le (by omega)]

theorem sliceTo_nat {α} (xs : List α) (j : Nat) : sliceTo xs (j : Int) = xs.take j := by
  unfold sliceTo
  rw [clampIdx_nat]
  by_cases hj : j ≤ xs.length
  · rw [Nat.min_eq_left hj]
  · have h2 : min j xs.length = xs.length := Nat.min_eq_right (by omega)
    rw [h2, List.take_of_length_le (Nat.le_refl _), List.take_of_length_le (by omega)]

theorem slice_lit {α} (xs : List α) (a b : Int) (i j : Nat) (ha : a = (i : Int)) (hb : b = (j : Int)) :
    slice xs a b = (xs.take j).drop i := by subst ha; subst hb; exact slice_nat xs i j
theorem sliceFrom_lit {α} (xs : List α) (a : Int) (i : Nat) (ha : a = (i : Int)) : sliceFrom xs a = xs.drop i := by
  subst ha; exact sliceFrom_nat xs i
theorem sliceTo_lit {α} (xs : List α) (b : Int) (j : Nat) (hb : b = (j : Int)) : sliceTo xs b = xs.take j := by
  subst hb; exact sliceTo_nat xs j

/-- a slice that is exactly the middle part of a concatenation -/
theorem slice_mid {α} (p m s : List α) (a b : Int) (ha : a = (p.length : Int)) (hb : b = ((p.length + m.length : Nat) : Int)) :
    slice (p ++ m ++ s) a b = m := by
  rw [slice_lit _ a b p.length (p.length + m.length) ha hb]
  subst ha; subst hb
  rw [List.append_assoc, List.take_append, List.take_of_length_le (by omega)]
  simp only [Nat.add_sub_cancel_left, List.take_left', List.drop_left]

/-- the middle of a three-part concatenation -/
theorem mid {α} (p m s : List α) (i j : Nat) (hi : p.length = i) (hj : i + m.length = j) :
    ((p ++ m ++ s).take j).drop i = m := by
  subst hi; subst hj
  rw [List.append_assoc, List.take_append, List.take_of_length_le (by omega)]
  simp only [Nat.add_sub_cancel_left, List.take_left', List.drop_left]

theorem mid' {α} (p m s : List α) (i j : Nat) (hi : p.length = i) (hj : i + m.length = j) :
    ((p ++ (m ++ s)).take j).drop i = m := by
  rw [← List.append_assoc]; exact mid p m s i j hi hj

theorem toBytesLE_ok (n k : Nat) (h : n < 256 ^ k) : toBytesLE (n : Int) k = .ok (toLE n k) := by
  unfold toBytesLE
  have h0 : ¬ ((n : Int) < 0) := by omega
  simp [h0, h]

theorem toBytesBE_ok (n k : Nat) (h : n < 256 ^ k) : toBytesBE (n : Int) k = .ok (toBE n k) := by
  unfold toBytesBE
  have h0 : ¬ ((n : Int) < 0) := by omega
  simp [h0, h]

theorem toBytesLESigned4_ok (v : Int) (h : -2147483648 ≤ v ∧ v ≤ 2147483647) :
    toBytesLESigned v 4 = .ok (toLE (v % 4294967296).toNat 4) := by
  unfold toBytesLESigned
  have h1 : ¬ (4 = 0) := by omega
  have h2 : -(2 ^ (8 * 4 - 1) : Int) ≤ v ∧ v < (2 ^ (8 * 4 - 1) : Int) := by
    constructor
    · have : (2 ^ (8 * 4 - 1) : Int) = 2147483648 := by decide
      omega
    · have : (2 ^ (8 * 4 - 1) : Int) = 2147483648 := by decide
      omega
  have h3 : (256 ^ 4 : Int) = 4294967296 := by decide
  simp only [h1, if_false, h2, and_self, if_true, h3]

theorem fromLESigned4 (v : Int) (h : -2147483648 ≤ v ∧ v ≤ 2147483647) :
    fromLESigned (toLE (v % 4294967296).toNat 4) = v := by
  unfold fromLESigned
  have hlt : (v % 4294967296).toNat < 256 ^ 4 := by
    have : (256 ^ 4 : Nat) = 4294967296 := by decide
    omega
  rw [fromLE_toLE _ _ hlt]
  simp only [toLE_length]
  have h4 : ¬ (4 = 0) := by omega
  have e1 : (2 ^ (8 * 4 - 1) : Nat) = 2147483648 := by decide
  have e2 : (256 ^ 4 : Int) = 4294967296 := by decide
  simp only [h4, if_false, e1, e2]
  split <;> omega

end DpapiNg.Py

namespace DpapiNg
/-- simp set that resolves `take`/`drop`/`sliceN` of right-nested concatenations with known lengths -/
macro "slices0" "[" ts:Lean.Parser.Tactic.simpLemma,* "]" : tactic =>
  `(tactic| simp [Py.sliceN, List.take_append, List.drop_append, List.take_of_length_le, List.drop_eq_nil_of_le, $ts,*])
end DpapiNg
