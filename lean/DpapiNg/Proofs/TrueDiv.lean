/-
  Exactness of CPython's `int(a / b)` when the quotient is short and the divisor is small
  relative to the spare mantissa bits (used for the L1 / L2 index kernels, which the
  repository still computes through a float quotient).
-/
import DpapiNg.Model.Py
namespace DpapiNg.Py

theorem round_trunc_exact (a b sh : Nat) (hb : 0 < b) (hsmall : b < 2 ^ (sh + 1)) (up : Bool)
    (hup : up = true → b ≤ 2 * ((a * 2 ^ sh) % b)) :
    ((a * 2 ^ sh) / b + (if up then 1 else 0)) / 2 ^ sh = a / b := by
  have hS : 0 < 2 ^ sh := Nat.pow_pos (by omega)
  generalize hSd : 2 ^ sh = S at *
  have h2S : 2 ^ (sh + 1) = 2 * S := by rw [Nat.pow_succ, hSd]; omega
  rw [h2S] at hsmall
  generalize hq : a / b = q
  generalize hρ : a % b = ρ
  have ha : a = b * q + ρ := by rw [← hq, ← hρ]; exact (Nat.div_add_mod a b).symm
  have hρlt : ρ < b := by rw [← hρ]; exact Nat.mod_lt _ hb
  have hnum : a * S = ρ * S + b * (q * S) := by
    rw [ha, Nat.add_mul, Nat.mul_assoc]; omega
  have hm : a * S / b = ρ * S / b + q * S := by
    rw [hnum, Nat.add_mul_div_left _ _ hb]
  have hr : a * S % b = ρ * S % b := by
    rw [hnum, Nat.add_mul_mod_self_left]
  generalize ht : ρ * S / b = t at hm
  generalize hu : ρ * S % b = u at hr
  have hdm : b * t + u = ρ * S := by rw [← ht, ← hu]; exact Nat.div_add_mod _ _
  have hρS : ρ * S ≤ (b - 1) * S := Nat.mul_le_mul_right S (by omega)
  have hbS : (b - 1) * S = b * S - S := by rw [Nat.sub_mul, Nat.one_mul]
  have hbS_ge : S ≤ b * S := Nat.le_mul_of_pos_left S hb
  have ht_lt : t < S := by
    apply Classical.byContradiction; intro hc
    have : b * S ≤ b * t := Nat.mul_le_mul_left b (by omega)
    omega
  rw [hm]
  cases up with
  | false =>
    simp only [Bool.false_eq_true, if_false, Nat.add_zero]
    rw [Nat.add_mul_div_right _ _ hS, Nat.div_eq_of_lt ht_lt]; omega
  | true =>
    simp only [if_true]
    have h2u := hup rfl
    rw [hr] at h2u
    have ht1 : t + 1 < S := by
      apply Classical.byContradiction; intro hc
      have hts : t = S - 1 := by omega
      have hbt : b * t = b * S - b := by rw [hts, Nat.mul_sub, Nat.mul_one]
      have hb_le : b ≤ b * S := Nat.le_mul_of_pos_right b hS
      omega
    have : ρ * S / b + q * S + 1 = (t + 1) + q * S := by omega
    rw [ht] at this
    rw [this, Nat.add_mul_div_right _ _ hS, Nat.div_eq_of_lt ht1]; omega

/-- With a quotient below 32 and a divisor below 2^49 the float quotient truncates exactly. -/
theorem trueDivTrunc_small (a b : Nat) (hb : 0 < b) (hb2 : b < 2 ^ 49) (hq : a / b < 32) :
    trueDivTrunc a b = a / b := by
  unfold trueDivTrunc
  by_cases ha : a = 0
  · simp [ha]
  · simp only [ha, if_false]
    have hbits : Nat.log2 (max (a / b) 1) + 1 ≤ 5 := by
      have hne : max (a / b) 1 ≠ 0 := by omega
      have : Nat.log2 (max (a / b) 1) < 5 := (Nat.log2_lt hne).2 (by omega)
      omega
    generalize hbd : Nat.log2 (max (a / b) 1) + 1 = bits at hbits
    have hnot : ¬ bits ≥ 54 := by omega
    simp only [hnot, if_false]
    generalize hsh : 53 - bits = sh
    have hsh48 : 48 ≤ sh := by omega
    have hsmall : b < 2 ^ (sh + 1) :=
      Nat.lt_of_lt_of_le hb2 (Nat.pow_le_pow_right (by omega) (by omega))
    have key := round_trunc_exact a b sh hb hsmall
      (decide (2 * (a * 2 ^ sh % b) > b ∨ 2 * (a * 2 ^ sh % b) = b ∧ a * 2 ^ sh / b % 2 = 1))
      (by intro h; simp only [decide_eq_true_eq] at h; omega)
    rw [← key]
    congr 1
    by_cases hc : (2 * (a * 2 ^ sh % b) > b ∨ 2 * (a * 2 ^ sh % b) = b ∧ a * 2 ^ sh / b % 2 = 1)
    · simp [hc]
    · simp [hc]

end DpapiNg.Py
