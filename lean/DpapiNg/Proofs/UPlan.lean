/-
  `Blob.blobUnpack` (the model of `DPAPINGBlob.unpack`) IS the interpretation of the unpack plan that the translator regenerates from
  /repo's source on every run (obligation `Gen.UPlanBlob_eq`, closed by `rfl`): the split at the outer ContentInfo, the content-type
  test, EnvelopedData.unpack, the four-way shape test (version 2, exactly one recipient info, a KEKRecipientInfo, version 4),
  KeyIdentifier.unpack, the protection-descriptor attribute test, ProtectionDescriptor.unpack, the `or` fallbacks, the constructor keywords.
-/
import DpapiNg.Model.UPlan
import DpapiNg.Proofs.WProg
namespace DpapiNg.Blob
open DpapiNg DpapiNg.Asn1 DpapiNg.WProg DpapiNg.UPlan

/-- `x.a.b` -/
def p (x : String) (attrs : List String) : UExpr := attrs.foldl UExpr.attr (.var x)

def blobUnpackPlan : List Step × List (String × UExpr) :=
  ([.split "content_info",
    .reject [.oidNe (p "content_info" ["content_type"]) oidEnvelopedData],
    .unpack "enveloped_data" "EnvelopedData" (p "content_info" ["content"]),
    .reject [.intNe (p "enveloped_data" ["version"]) 2, .lenNe (p "enveloped_data" ["recipient_infos"]) 1,
             .notInstance (.first (p "enveloped_data" ["recipient_infos"])) "KEKRecipientInfo",
             .intNe (.attr (.first (p "enveloped_data" ["recipient_infos"])) "version") 4],
    .alias "kek_info" (.first (p "enveloped_data" ["recipient_infos"])),
    .unpack "key_identifier" "KeyIdentifier" (p "kek_info" ["kekid", "key_identifier"]),
    .reject [.falsy (p "kek_info" ["kekid", "other"]), .oidNe (p "kek_info" ["kekid", "other", "key_attr_id"]) oidMicrosoftSoftware],
    .unpack "protection_descriptor" "ProtectionDescriptor" (.orEmpty (p "kek_info" ["kekid", "other", "key_attr"])),
    .alias "enc_content" (.orRest (p "enveloped_data" ["encrypted_content_info", "content"]))],
   [("key_identifier", .var "key_identifier"), ("protection_descriptor", .var "protection_descriptor"),
    ("enc_cek", p "kek_info" ["encrypted_key"]), ("enc_cek_algorithm", p "kek_info" ["key_encryption_algorithm", "algorithm"]),
    ("enc_cek_parameters", p "kek_info" ["key_encryption_algorithm", "parameters"]), ("enc_content", .var "enc_content"),
    ("enc_content_algorithm", p "enveloped_data" ["encrypted_content_info", "algorithm", "algorithm"]),
    ("enc_content_parameters", p "enveloped_data" ["encrypted_content_info", "algorithm", "parameters"])])

def KeyId.toVal (k : Gkdi.KeyId) : Val :=
  .obj [("version", .int k.version), ("flags", .int k.flags), ("l0", .int k.l0), ("l1", .int k.l1), ("l2", .int k.l2),
        ("root_key_identifier", .bytes k.rootKeyId), ("key_info", .bytes k.keyInfo), ("domain_name", .bytes k.domainName),
        ("forest_name", .bytes k.forestName)]

def Blob.toVal (b : Blob) : Val :=
  .obj [("key_identifier", KeyId.toVal b.keyId), ("protection_descriptor", .bytes b.sid), ("enc_cek", .bytes b.encCek),
        ("enc_cek_algorithm", .oid b.encCekAlg), ("enc_cek_parameters", optBytes b.encCekParams), ("enc_content", .bytes b.encContent),
        ("enc_content_algorithm", .oid b.encContentAlg), ("enc_content_parameters", optBytes b.encContentParams)]

/-- `Cls.unpack(<bytes>)` for the three classes `DPAPINGBlob.unpack` calls -/
def ucall : UPlan.Call := fun cls v =>
  match v with
  | .bytes b =>
    if cls = "EnvelopedData" then (envelopedDataUnpack b).map EnvelopedData.toVal
    else if cls = "KeyIdentifier" then (Gkdi.keyIdUnpack b).map KeyId.toVal
    else if cls = "ProtectionDescriptor" then (protDescUnpack b).map Val.bytes
    else .error .typeError
  | _ => .error .typeError

theorem envelopedDataUnpack_version (v : Bytes) (ed : EnvelopedData) (h : envelopedDataUnpack v = .ok ed) : ed.version = 2 := by
  unfold envelopedDataUnpack at h
  cases h1 : rdSeq v with
  | error e => simp [h1, bind, Except.bind] at h
  | ok x =>
    simp only [h1, bind, Except.bind] at h
    cases h2 : rdInt x.1 with
    | error e => simp [h2] at h
    | ok i =>
      simp only [h2] at h
      by_cases hv : i.1 = 2
      · simp only [hv] at h
        cases h3 : rdSet i.2 with
        | error e => simp [h3] at h
        | ok st =>
          simp only [h3] at h
          cases h4 : recipientInfosUnpack st.1.length st.1 with
          | error e => simp [h4] at h
          | ok ris =>
            simp only [h4] at h
            cases h5 : encContentInfoUnpack st.2 with
            | error e => simp [h5] at h
            | ok eci =>
              simp [h5, pure, Except.pure] at h
              rw [← h]
      · simp [hv, throw, throwThe, MonadExceptOf.throw] at h

/-- what `blobUnpack` does once the EnvelopedData is decoded -/
def afterEnveloped (ed : EnvelopedData) (remaining : Bytes) : R Blob :=
  match ed.recipientInfos with
  | [ri] =>
    if ri.version ≠ 4 then .error .valueError else
    (Gkdi.keyIdUnpack ri.kekid.keyIdentifier) >>= fun kid =>
    match ri.kekid.other with
    | some o =>
      if o.keyAttrId ≠ oidMicrosoftSoftware then .error .valueError else
      (protDescUnpack (orEmpty o.keyAttr)) >>= fun sid =>
      .ok ⟨kid, sid, ri.encryptedKey, ri.alg.algorithm, ri.alg.parameters,
           if truthy ed.encContentInfo.content then orEmpty ed.encContentInfo.content else remaining,
           ed.encContentInfo.alg.algorithm, ed.encContentInfo.alg.parameters⟩
    | none => .error .valueError
  | _ => .error .valueError

def tailSteps : List Step := blobUnpackPlan.1.drop 3

theorem tail_eq (data : Bytes) (ed : EnvelopedData) (hv : ed.version = 2) (remaining : Bytes) (civ : Val) :
    (do let s ← runSteps ucall data tailSteps ⟨[("enveloped_data", ed.toVal), ("content_info", civ)], remaining⟩
        Except.ok (Val.obj (blobUnpackPlan.2.map fun (k, e) => (k, eval s e)))) =
    (afterEnveloped ed remaining).map Blob.toVal := by
  obtain ⟨ver, ris, eci⟩ := ed
  simp only at hv
  subst hv
  unfold afterEnveloped tailSteps blobUnpackPlan
  match ris with
  | [] => simp (config := { decide := true }) [runSteps, eval, p, List.foldl, List.lookup, Cond.holds, Val.field, EnvelopedData.toVal, Except.map, bind, Except.bind]
  | r1 :: r2 :: more => simp (config := { decide := true }) [runSteps, eval, p, List.foldl, List.lookup, Cond.holds, Val.field, EnvelopedData.toVal, Except.map, bind, Except.bind]
  | [ri] =>
    obtain ⟨rv, ⟨ki, date, other⟩, ⟨alg, prm⟩, ek⟩ := ri
    simp (config := { decide := true }) [runSteps, eval, p, List.foldl, List.lookup, Cond.holds, Val.field, EnvelopedData.toVal, KekRi.toVal, KekId.toVal, AlgId.toVal,
      EncContentInfo.toVal, ucall]
    by_cases hrv : rv = 4
    · subst hrv
      simp only [if_true, ne_eq, not_true_eq_false, if_false]
      cases Gkdi.keyIdUnpack ki with
      | error e => simp [Except.map, bind, Except.bind]
      | ok kid =>
        obtain ⟨ct, ealg, econtent⟩ := eci
        obtain ⟨ealgo, eprm⟩ := ealg
        cases other with
        | none => simp (config := { decide := true }) [Except.map, bind, Except.bind]
        | some o =>
          obtain ⟨oid, attr⟩ := o
          by_cases hoid : oid = oidMicrosoftSoftware
          · subst hoid
            cases attr with
            | none =>
              simp (config := { decide := true }) [Except.map, bind, Except.bind, OtherAttr.toVal, optBytes, List.lookup, orEmpty]
              cases protDescUnpack [] with
              | error e => simp
              | ok sid =>
                cases econtent with
                | none => simp (config := { decide := true }) [Blob.toVal, optBytes, List.lookup, truthy, orEmpty, Val.field]
                | some c => by_cases hc : c = [] <;> simp (config := { decide := true }) [hc, Blob.toVal, optBytes, List.lookup, truthy, orEmpty, Val.field]
            | some a =>
              by_cases ha : a = []
              · subst ha
                simp (config := { decide := true }) [Except.map, bind, Except.bind, OtherAttr.toVal, optBytes, List.lookup, orEmpty]
                cases protDescUnpack [] with
                | error e => simp
                | ok sid =>
                  cases econtent with
                  | none => simp (config := { decide := true }) [Blob.toVal, optBytes, List.lookup, truthy, orEmpty, Val.field]
                  | some c => by_cases hc : c = [] <;> simp (config := { decide := true }) [hc, Blob.toVal, optBytes, List.lookup, truthy, orEmpty, Val.field]
              · simp (config := { decide := true }) [ha, Except.map, bind, Except.bind, OtherAttr.toVal, optBytes, List.lookup, orEmpty]
                cases protDescUnpack a with
                | error e => simp
                | ok sid =>
                  cases econtent with
                  | none => simp (config := { decide := true }) [Blob.toVal, optBytes, List.lookup, truthy, orEmpty, Val.field]
                  | some c => by_cases hc : c = [] <;> simp (config := { decide := true }) [hc, Blob.toVal, optBytes, List.lookup, truthy, orEmpty, Val.field]
          · simp (config := { decide := true }) [hoid, Except.map, bind, Except.bind, OtherAttr.toVal, optBytes, List.lookup]
    · simp (config := { decide := true }) [hrv, Except.map, bind, Except.bind]

theorem blobUnpack_afterEnveloped (data : Bytes) :
    blobUnpack data = (do
      let header ← readHeader data
      let n := header.tagLength + header.length
      let (ct, content) ← contentInfoUnpack (data.take n) header
      if ct ≠ oidEnvelopedData then throw .valueError
      let ed ← envelopedDataUnpack content
      afterEnveloped ed (data.drop n)) := by
  unfold blobUnpack afterEnveloped
  cases readHeader data with
  | error e => rfl
  | ok h =>
    simp only [bind, Except.bind]
    cases contentInfoUnpack (List.take (h.tagLength + h.length) data) h with
    | error e => rfl
    | ok ci =>
      simp only
      by_cases hct : ci.1 = oidEnvelopedData
      · simp only [hct, ne_eq, not_true_eq_false, if_false]
        cases envelopedDataUnpack ci.2 with
        | error e => rfl
        | ok ed =>
          simp only
          split
          · rename_i ri hri
            simp only [hri]
            by_cases hv : ri.version = 4
            · simp only [hv, ne_eq, not_true_eq_false, if_false]
              cases Gkdi.keyIdUnpack ri.kekid.keyIdentifier with
              | error e => rfl
              | ok kid =>
                simp only
                cases ho : ri.kekid.other with
                | none => rfl
                | some o =>
                  simp only
                  by_cases hoid : o.keyAttrId = oidMicrosoftSoftware
                  · simp only [hoid, ne_eq, not_true_eq_false, if_false]
                    cases protDescUnpack (orEmpty o.keyAttr) <;> rfl
                  · simp [hoid, throw, throwThe, MonadExceptOf.throw]
            · simp [hv, throw, throwThe, MonadExceptOf.throw]
          · rename_i hne
            split
            · rename_i ri hri
              exact absurd hri (hne ri)
            · rfl
      · simp [hct, throw, throwThe, MonadExceptOf.throw]

theorem blobUnpack_eq_plan (data : Bytes) :
    (blobUnpack data).map Blob.toVal = UPlan.run ucall blobUnpackPlan data := by
  rw [blobUnpack_afterEnveloped]
  unfold UPlan.run
  have hsteps : blobUnpackPlan.1 = [.split "content_info", .reject [.oidNe (p "content_info" ["content_type"]) oidEnvelopedData],
      .unpack "enveloped_data" "EnvelopedData" (p "content_info" ["content"])] ++ tailSteps := by rfl
  rw [hsteps]
  simp only [List.cons_append, List.nil_append, runSteps]
  cases readHeader data with
  | error e => rfl
  | ok h =>
    simp only [bind, Except.bind]
    cases contentInfoUnpack (List.take (h.tagLength + h.length) data) h with
    | error e => rfl
    | ok ci =>
      simp only
      by_cases hct : ci.1 = oidEnvelopedData
      · simp (config := { decide := true }) [hct, List.any, Cond.holds, eval, p, List.foldl, List.lookup, Val.field, ucall]
        cases hed : envelopedDataUnpack ci.2 with
        | error e => rfl
        | ok ed =>
          simp only [Except.map]
          have hv := envelopedDataUnpack_version _ _ hed
          have := tail_eq data ed hv (List.drop (h.tagLength + h.length) data) (Val.obj [("content_type", Val.oid oidEnvelopedData), ("content", Val.bytes ci.2)])
          simp only [bind, Except.bind] at this
          rw [this]
          cases afterEnveloped ed (List.drop (h.tagLength + h.length) data) <;> rfl
      · simp (config := { decide := true }) [hct, throw, throwThe, MonadExceptOf.throw, List.any, Cond.holds, eval, p, List.foldl, List.lookup, Val.field, Except.map]

theorem optBytes_injective {a b : Option Bytes} (h : optBytes a = optBytes b) : a = b := by
  cases a <;> cases b <;> simp_all [optBytes]

theorem KeyId.toVal_injective {a b : Gkdi.KeyId} (h : KeyId.toVal a = KeyId.toVal b) : a = b := by
  obtain ⟨v, f, l0, l1, l2, rk, ki, dn, fn⟩ := a
  obtain ⟨v', f', l0', l1', l2', rk', ki', dn', fn'⟩ := b
  simp only [KeyId.toVal, Val.obj.injEq, List.cons.injEq, Prod.mk.injEq, Val.int.injEq, Val.bytes.injEq, true_and, and_true, Int.natCast_inj] at h
  obtain ⟨h1, h2, h3, h4, h5, h6, h7, h8, h9⟩ := h
  subst h1 h2 h3 h4 h5 h6 h7 h8 h9
  rfl

/-- the `Val` image pins the blob down: equal images, equal blobs (so `blobUnpack_eq_plan` determines `blobUnpack`) -/
theorem Blob.toVal_injective {a b : Blob} (h : Blob.toVal a = Blob.toVal b) : a = b := by
  obtain ⟨k, sid, ck, ca, cp, ec, ea, ep⟩ := a
  obtain ⟨k', sid', ck', ca', cp', ec', ea', ep'⟩ := b
  simp only [Blob.toVal, Val.obj.injEq, List.cons.injEq, Prod.mk.injEq, Val.bytes.injEq, Val.oid.injEq, true_and, and_true] at h
  obtain ⟨h1, h2, h3, h4, h5, h6, h7, h8⟩ := h
  have := KeyId.toVal_injective h1
  have := optBytes_injective h5
  have := optBytes_injective h8
  subst_vars
  rfl

end DpapiNg.Blob
