/-
  The hand-written `pack` models of `_pkcs7.py` / `_blob.py` ARE the interpretation of the ASN.1 writer programs
  that the translator regenerates from /repo's source on every run
  (obligations `Gen.WProg*_eq : Gen.WProg* = <program below>`, closed by `rfl`).
  Field names are the Python ones.  `call` resolves `self.f.pack(w)` by the annotated class of `f`
  (`RecipientInfo` is `KEKRecipientInfo`, the only implemented choice, as in the model).
-/
import DpapiNg.Model.WProg
import DpapiNg.Model.Blob
namespace DpapiNg.Blob
open DpapiNg DpapiNg.Asn1 DpapiNg.WProg

def optBytes : Option Bytes → Val
  | some b => .bytes b
  | none => .none

def algIdProg : List Op := [.seq none [.oid "algorithm", .ifTruthy "parameters" [.raw "parameters"]]]
def otherAttrProg : List Op := [.seq none [.oid "key_attr_id", .ifTruthy "key_attr" [.raw "key_attr"]]]
def kekIdProg : List Op :=
  [.seq none [.octets "key_identifier" none, .ifTruthy "date" [.genTime "date"], .ifTruthy "other" [.sub "other" "OtherKeyAttribute"]]]
def kekRiProg : List Op :=
  [.seq (some (ctx 2 true)) [.int "version", .sub "kekid" "KEKIdentifier", .sub "key_encryption_algorithm" "AlgorithmIdentifier",
    .octets "encrypted_key" none]]
def encContentInfoProg : List Op :=
  [.seq none [.oid "content_type", .sub "algorithm" "AlgorithmIdentifier", .ifTruthy "content" [.octets "content" (some (ctx 0 false))]]]
def envelopedDataProg : List Op :=
  [.seq none [.int "version", .setOf [.each "recipient_infos" "RecipientInfo"], .sub "encrypted_content_info" "EncryptedContentInfo"]]
def contentInfoProg : List Op := [.seq none [.oid "content_type", .octets "content" (some (ctx 0 true))]]
def protDescProg : List Op :=
  [.seq none [.oid "type.value", .seq none [.seq none [.seq none [.utf8 "type.name", .utf8 "value"]]]]]

def AlgId.toVal (a : AlgId) : Val := .obj [("algorithm", .oid a.algorithm), ("parameters", optBytes a.parameters)]
def OtherAttr.toVal (o : OtherAttr) : Val := .obj [("key_attr_id", .oid o.keyAttrId), ("key_attr", optBytes o.keyAttr)]
def KekId.toVal (k : KekId) : Val :=
  .obj [("key_identifier", .bytes k.keyIdentifier), ("date", optBytes k.date),
        ("other", match k.other with | some o => o.toVal | none => .none)]
def KekRi.toVal (r : KekRi) : Val :=
  .obj [("version", .int r.version), ("kekid", r.kekid.toVal), ("key_encryption_algorithm", r.alg.toVal),
        ("encrypted_key", .bytes r.encryptedKey)]
def EncContentInfo.toVal (e : EncContentInfo) : Val :=
  .obj [("content_type", .oid e.contentType), ("algorithm", e.alg.toVal), ("content", optBytes e.content)]
def EnvelopedData.toVal (e : EnvelopedData) : Val :=
  .obj [("version", .int e.version), ("recipient_infos", .list (e.recipientInfos.map KekRi.toVal)),
        ("encrypted_content_info", e.encContentInfo.toVal)]

/-- the class table: `self.f.pack(w)` for a field annotated with class `cls` -/
def call0 : String → Val → R Bytes := fun cls v =>
  if cls = "AlgorithmIdentifier" then runOps noCall v algIdProg
  else if cls = "OtherKeyAttribute" then runOps noCall v otherAttrProg
  else .error .typeError
def call1 : String → Val → R Bytes := fun cls v =>
  if cls = "KEKIdentifier" then runOps call0 v kekIdProg else call0 cls v
def call2 : String → Val → R Bytes := fun cls v =>
  if cls = "RecipientInfo" then runOps call1 v kekRiProg
  else if cls = "EncryptedContentInfo" then runOps call1 v encContentInfoProg
  else call1 cls v

@[simp] theorem bind_ok {α β : Type} (x : α) (f : α → R β) : (Except.ok x >>= f) = f x := rfl
@[simp] theorem bind_error {α β : Type} (e : PyErr) (f : α → R β) : ((Except.error e : R α) >>= f) = .error e := rfl

@[simp] theorem bind_append_nil (x : R Bytes) : (x >>= fun a => HAppend.hAppend a <$> (Except.ok [] : R Bytes)) = x := by
  cases x <;> simp [bind, Except.bind, Functor.map, Except.map]
@[simp] theorem pure_eq_ok {α : Type} (a : α) : (pure a : R α) = .ok a := rfl

@[simp] theorem bind_ok_id {α : Type} (x : R α) : (x >>= fun a => Except.ok a) = x := by
  cases x <;> rfl
@[simp] theorem truthy_bytes (b : Bytes) : (Val.bytes b).truthy = !b.isEmpty := rfl
@[simp] theorem truthy_none : Val.none.truthy = false := rfl
@[simp] theorem truthy_obj (fs : List (String × Val)) : (Val.obj fs).truthy = true := rfl
@[simp] theorem OtherAttr.toVal_truthy (o : OtherAttr) : o.toVal.truthy = true := rfl

theorem runOps_single (c : String → Val → R Bytes) (s : Val) (op : Op) : runOps c s [op] = runOp c s op := by
  simp only [runOps]
  cases runOp c s op <;> simp [bind, Except.bind, pure, Except.pure, Functor.map, Except.map]

theorem runOps_cons (c : String → Val → R Bytes) (s : Val) (op : Op) (rest : List Op) :
    runOps c s (op :: rest) = (do let a ← runOp c s op; let b ← runOps c s rest; pure (a ++ b)) := by
  simp only [runOps]

theorem algIdPack_eq_prog (a : AlgId) : algIdPack a = runOps noCall a.toVal algIdProg := by
  obtain ⟨alg, params⟩ := a
  unfold algIdPack algIdProg AlgId.toVal wSeq
  rw [runOps_single]
  cases params with
  | none =>
    simp [runOps, runOp, Val.field, List.lookup, optBytes, Val.truthy, truthy, tSEQ]
  | some p =>
    simp [runOps, runOp, Val.field, List.lookup, optBytes, Val.truthy, truthy, orEmpty, tSEQ]
    cases packOid alg <;> simp [bind, Except.bind]
    by_cases hp : p = [] <;> simp [hp, Functor.map, Except.map]

theorem otherAttrPack_eq_prog (o : OtherAttr) : otherAttrPack o = runOps noCall o.toVal otherAttrProg := by
  obtain ⟨id, attr⟩ := o
  unfold otherAttrPack otherAttrProg OtherAttr.toVal wSeq
  rw [runOps_single]
  cases attr with
  | none =>
    simp [runOps, runOp, Val.field, List.lookup, optBytes, Val.truthy, truthy, tSEQ]
  | some p =>
    simp [runOps, runOp, Val.field, List.lookup, optBytes, Val.truthy, truthy, orEmpty, tSEQ]
    cases packOid id <;> simp [bind, Except.bind]
    by_cases hp : p = [] <;> simp [hp, Functor.map, Except.map]

theorem call0_alg (a : AlgId) : call0 "AlgorithmIdentifier" a.toVal = algIdPack a := by
  simp [call0, algIdPack_eq_prog]
theorem call0_other (o : OtherAttr) : call0 "OtherKeyAttribute" o.toVal = otherAttrPack o := by
  simp [call0, otherAttrPack_eq_prog]

theorem kekIdPack_eq_prog (k : KekId) : kekIdPack k = runOps call0 k.toVal kekIdProg := by
  obtain ⟨ki, date, other⟩ := k
  unfold kekIdPack kekIdProg wSeq
  rw [runOps_single]
  cases date <;> cases other <;>
    simp [KekId.toVal, runOps, runOp, Val.field, List.lookup, optBytes, truthy, orEmpty, tSEQ, call0_other]

theorem call1_kekid (k : KekId) : call1 "KEKIdentifier" k.toVal = kekIdPack k := by
  simp [call1, kekIdPack_eq_prog]
theorem call1_alg (a : AlgId) : call1 "AlgorithmIdentifier" a.toVal = algIdPack a := by
  simp [call1, call0_alg]

theorem kekRiPack_eq_prog (r : KekRi) : kekRiPack r = runOps call1 r.toVal kekRiProg := by
  obtain ⟨v, k, a, e⟩ := r
  unfold kekRiPack kekRiProg
  rw [runOps_single]
  simp [KekRi.toVal, runOps, runOp, Val.field, List.lookup, call1_kekid, call1_alg]

theorem encContentInfoPack_eq_prog (e : EncContentInfo) : encContentInfoPack e = runOps call1 e.toVal encContentInfoProg := by
  obtain ⟨t, a, c⟩ := e
  unfold encContentInfoPack encContentInfoProg wSeq
  rw [runOps_single]
  cases c <;>
    simp [EncContentInfo.toVal, runOps, runOp, Val.field, List.lookup, optBytes, truthy, orEmpty, tSEQ, call1_alg]

theorem call2_ri (r : KekRi) : call2 "RecipientInfo" r.toVal = kekRiPack r := by
  simp [call2, kekRiPack_eq_prog]
theorem call2_eci (e : EncContentInfo) : call2 "EncryptedContentInfo" e.toVal = encContentInfoPack e := by
  simp [call2, encContentInfoPack_eq_prog]

theorem mapM_call2 (l : List KekRi) : (l.map KekRi.toVal).mapM (call2 "RecipientInfo") = l.mapM kekRiPack := by
  induction l with
  | nil => rfl
  | cons r rest ih => simp [List.mapM_cons, call2_ri, ih]

theorem envelopedDataPack_eq_prog (e : EnvelopedData) : envelopedDataPack e = runOps call2 e.toVal envelopedDataProg := by
  obtain ⟨v, ris, eci⟩ := e
  unfold envelopedDataPack envelopedDataProg wSeq wSet
  rw [runOps_single]
  have hf : (call2 "RecipientInfo" ∘ KekRi.toVal) = kekRiPack := by funext r; simp [call2_ri]
  simp [EnvelopedData.toVal, runOps, runOp, Val.field, List.lookup, tSEQ, tSET, call2_eci, hf]
  cases packInteger v <;> simp [bind, Except.bind]
  cases List.mapM kekRiPack ris <;> simp [Except.map]

def contentInfoVal (contentType : List Nat) (content : Bytes) : Val :=
  .obj [("content_type", .oid contentType), ("content", .bytes content)]

theorem contentInfoPack_eq_prog (ct : List Nat) (c : Bytes) :
    contentInfoPack ct c = runOps noCall (contentInfoVal ct c) contentInfoProg := by
  unfold contentInfoPack contentInfoProg wSeq contentInfoVal
  rw [runOps_single]
  simp [runOps, runOp, Val.field, List.lookup, tSEQ]

/-- `self.type` is the enum member `ProtectionDescriptorType.SID` (value = the OID, name = "SID") -/
def protDescVal (sidUtf8 : Bytes) : Val :=
  .obj [("type.value", .oid oidSidProtector), ("type.name", .bytes utf8SID), ("value", .bytes sidUtf8)]

theorem protDescPack_eq_prog (sid : Bytes) : protDescPack sid = runOps noCall (protDescVal sid) protDescProg := by
  unfold protDescPack protDescProg wSeq protDescVal
  rw [runOps_single]
  simp [runOps, runOp, Val.field, List.lookup, tSEQ]

end DpapiNg.Blob
