/-
  Tables that tie the endpoint-mapper floors and the verification-trailer commands to /repo's source:
  the byte layout of `Floor.pack`, the protocol / command-type numbers and which number each known class carries
  (obligations `Gen.Const*_eq`), and the arguments each known floor hands to `Floor(...)` (obligations `Gen.CallFloor*_eq`);
  the theorems below state what the hand-written models (`Epm.floorPack`, `Rpc.cmdValueUnpack`) do in terms of those tables.
-/
import DpapiNg.Model.Epm
import DpapiNg.Proofs.Layout
namespace DpapiNg
open DpapiNg.Layout

namespace Epm
open DpapiNg.Rpc

def floorLayout : List Item := [.lenPlus 1 "lhs" 2, .int "protocol" 1, .bytes "lhs", .lenOf "rhs" 2, .bytes "rhs"]
def floorEnv (proto : Nat) (lhs rhs : Bytes) : Env where
  ints f := if f = "protocol" then proto else 0
  bytes f := if f = "lhs" then .ok lhs else if f = "rhs" then .ok rhs else .error .keyError

theorem rawPack_eq_layout (proto : Nat) (lhs rhs : Bytes) : rawPack proto lhs rhs = Layout.pack (floorEnv proto lhs rhs) floorLayout := by
  unfold rawPack floorLayout
  simp only [Layout.pack, floorEnv, le]
  simp (config := { decide := true }) only [if_true, if_false, bind, Except.bind, pure, Except.pure, List.append_assoc, List.append_nil]
  have h : ((1 + lhs.length : Nat) : Int) = ((lhs.length + 1 : Nat) : Int) := by omega
  rw [h]
  repeat' split
  all_goals simp_all

/-- `FloorProtocol` members -/
def protoTcp : Nat := 7
def protoIp : Nat := 9
def protoRpcCo : Nat := 11
def protoUuid : Nat := 13
/-- the `protocol` default of each known floor class -/
def tcpFloorProtocol : String := "FloorProtocol.TCP"
def ipFloorProtocol : String := "FloorProtocol.IP"
def rpcCoFloorProtocol : String := "FloorProtocol.RPC_CONNECTION_ORIENTED"
def uuidFloorProtocol : String := "FloorProtocol.UUID_ID"

/-- the arguments of `Floor(...)` in each known floor's `pack` -/
def tcpFloorCall : List (String × String) := [("#0", "self.protocol"), ("#1", "b''"), ("#2", "self.port.to_bytes(2, byteorder='big')")]
def ipFloorCall : List (String × String) := [("#0", "self.protocol"), ("#1", "b''"), ("#2", "self.addr.to_bytes(4, byteorder='big')")]
def rpcCoFloorCall : List (String × String) :=
  [("#0", "self.protocol"), ("#1", "b''"), ("#2", "self.version_minor.to_bytes(2, byteorder='little')")]
def uuidFloorCall : List (String × String) :=
  [("lhs", "self.uuid.bytes_le + self.version.to_bytes(2, byteorder='little')"), ("protocol", "self.protocol"),
   ("rhs", "self.version_minor.to_bytes(2, byteorder='little')")]

theorem floorPack_tcp (port : Nat) : floorPack (.tcp port) = (Py.toBytesBE port 2).bind fun r => rawPack protoTcp [] r := rfl
theorem floorPack_ip (addr : Nat) : floorPack (.ip addr) = (Py.toBytesBE addr 4).bind fun r => rawPack protoIp [] r := rfl
theorem floorPack_rpcCo (m : Nat) : floorPack (.rpcCo m) = (le m 2).bind fun r => rawPack protoRpcCo [] r := rfl
theorem floorPack_uuid (u : Bytes) (v m : Nat) :
    floorPack (.uuid u v m) = (le v 2).bind fun a => (le m 2).bind fun r => rawPack protoUuid (u ++ a) r := rfl

end Epm

namespace Rpc
/-- `CommandType` members -/
def cmdBitmask1 : Nat := 1
def cmdPContext : Nat := 2
def cmdHeader2 : Nat := 3
/-- `CommandFlags` members -/
def cmdFlagEnd : Nat := 16384
def cmdFlagMustProcess : Nat := 32768
/-- the `command` default of each known command class -/
def bitmaskCommand : String := "CommandType.SEC_VT_COMMAND_BITMASK_1"
def pcontextCommand : String := "CommandType.SEC_VT_COMMAND_PCONTEXT"
def header2Command : String := "CommandType.SEC_VT_COMMAND_HEADER2"

theorem cmdValueUnpack_bitmask (v : Bytes) : cmdValueUnpack cmdBitmask1 v = .ok (.bitmask (Py.fromLE v)) := rfl
theorem cmdValueUnpack_pcontext (v : Bytes) :
    cmdValueUnpack cmdPContext v = (syntaxUnpack v).bind fun i => (syntaxUnpack (v.drop 20)).bind fun t => .ok (.pcontext i t) := rfl
theorem cmdValueUnpack_other (ct : Nat) (v : Bytes) (h1 : ct ≠ cmdBitmask1) (h2 : ct ≠ cmdPContext) (h3 : ct ≠ cmdHeader2) :
    cmdValueUnpack ct v = .ok (.raw v) := by
  unfold cmdValueUnpack
  simp only [cmdBitmask1, cmdPContext, cmdHeader2] at h1 h2 h3
  simp [h1, h2, h3, pure, Except.pure]

/-- the END test of `VerificationTrailer.unpack` is bit `cmdFlagEnd` of the flags `Command.unpack` split off -/
theorem vtCommands_end (fuel : Nat) (v : Bytes) (c : Command) (n : Nat) (hl : ¬ v.length < 4) (hc : commandUnpack v = .ok (c, n))
    (he : c.flags / cmdFlagEnd % 2 = 1) : vtCommands (fuel + 1) v = .ok [c] := by
  simp only [cmdFlagEnd] at he
  simp [vtCommands, hl, hc, he, bind, Except.bind, pure, Except.pure]

end Rpc
end DpapiNg
