/-
  C05, work bounds: the data-driven loops of the blob parser make at most one iteration per input octet.
-/
import DpapiNg.Proofs.SafeBlob
namespace DpapiNg.Asn1
open DpapiNg

theorem unpackOctetNumberAux_consumed (b : Bytes) (acc idx n k : Nat) (h : unpackOctetNumberAux b acc idx = .ok (n, k)) :
    idx + 1 ≤ k ∧ k ≤ idx + b.length := by
  induction b generalizing acc idx with
  | nil => simp [unpackOctetNumberAux] at h
  | cons e rest ih =>
    simp only [unpackOctetNumberAux] at h
    split at h
    · cases h; simp
    · have := ih _ _ h; simp; omega

/-- a base-128 number consumes at least one and at most all octets of its input -/
theorem unpackOctetNumber_consumed (b : Bytes) (n k : Nat) (h : unpackOctetNumber b = .ok (n, k)) : 1 ≤ k ∧ k ≤ b.length := by
  have := unpackOctetNumberAux_consumed b 0 0 n k h; omega

/-- the OID arc loop makes at most one iteration per content octet -/
theorem readArcs_length_le (fuel : Nat) (b : Bytes) (arcs : List Nat) (h : readArcs fuel b = .ok arcs) : arcs.length ≤ b.length := by
  induction fuel generalizing b arcs with
  | zero => cases b <;> (simp [readArcs] at h; subst h; simp)
  | succ f ih =>
    cases b with
    | nil => simp [readArcs] at h; subst h; simp
    | cons x xs =>
      simp only [readArcs] at h
      obtain ⟨⟨n, k⟩, h1, h⟩ := bind_ok_iff.mp h
      obtain ⟨rest, h2, h⟩ := bind_ok_iff.mp h
      cases h
      have hk := unpackOctetNumber_consumed _ _ _ h1
      have := ih _ _ h2
      simp only [List.length_drop, List.length_cons] at this ⊢
      omega

/-- a header is at least two octets -/
theorem readHeader_size (v : Bytes) (h : Header) (hh : readHeader v = .ok h) : 2 ≤ h.tagLength := by
  unfold readHeader at hh
  obtain ⟨⟨tag, n⟩, h1, hh⟩ := bind_ok_iff.mp hh
  obtain ⟨⟨a, b⟩, h2, hh⟩ := bind_ok_iff.mp hh
  cases hh
  have ha : 1 ≤ a := by
    unfold readLength at h2
    split at h2
    · cases h2
    · split at h2
      · cases h2
      · split at h2
        · obtain ⟨len, _, h2⟩ := bind_ok_iff.mp h2; cases h2; omega
        · cases h2; omega
  have hn : 1 ≤ n := by
    unfold readIdentifier at h1
    split at h1
    · cases h1
    · obtain ⟨⟨num, cnt⟩, _, h1⟩ := bind_ok_iff.mp h1
      simp only [] at h1
      split at h1
      · cases h1
      · cases h1; omega
  simp only; omega

end DpapiNg.Asn1

namespace DpapiNg.Asn1
open DpapiNg

theorem validateTag_hd {v : Bytes} {e : Option Tag} {t : Tag} {h : Option Header} {c : Bytes} {n : Nat}
    (hv : validateTag v e t h = .ok (c, n)) :
    ∃ hd : Header, (∀ h0, h = some h0 → hd = h0) ∧ (h = none → readHeader v = .ok hd) ∧ n = hd.tagLength + hd.length := by
  unfold validateTag at hv
  obtain ⟨hd, h0, hv⟩ := bind_ok_iff.mp hv
  have hsrc : (∀ x, h = some x → hd = x) ∧ (h = none → readHeader v = .ok hd) := by
    cases h with
    | none => exact ⟨fun _ hx => (nomatch hx), fun _ => h0⟩
    | some x =>
      cases h0
      exact ⟨fun y hy => (Option.some.inj hy), fun hx => (nomatch hx)⟩
  refine ⟨hd, hsrc.1, hsrc.2, ?_⟩
  cases h with
  | none =>
    simp only [ne_eq, ite_not] at hv
    by_cases h1 : hd.tag = e.getD t
    · rw [if_pos h1] at hv
      by_cases h2 : (v.drop hd.tagLength).length < hd.length
      · rw [if_pos h2] at hv; cases hv
      · rw [if_neg h2] at hv; cases hv; rfl
    · rw [if_neg h1] at hv; cases hv
  | some x =>
    simp only [ne_eq, ite_not] at hv
    by_cases h1 : hd.tag = e.getD x.tag
    · rw [if_pos h1] at hv
      by_cases h2 : (v.drop hd.tagLength).length < hd.length
      · rw [if_pos h2] at hv; cases hv
      · rw [if_neg h2] at hv; cases hv; rfl
    · rw [if_neg h1] at hv; cases hv

end DpapiNg.Asn1

namespace DpapiNg.Blob
open DpapiNg DpapiNg.Asn1

/-- every KEKRecipientInfo that is read consumes at least one octet of the SET -/
theorem recipientInfoUnpack_consumes (v rest : Bytes) (ri : KekRi) (h : recipientInfoUnpack v = .ok (ri, rest)) (hv : v ≠ []) :
    rest.length < v.length := by
  unfold recipientInfoUnpack at h
  obtain ⟨hd, hh, h⟩ := bind_ok_iff.mp h
  obtain ⟨_, h⟩ := guard_ok_iff.mp h
  obtain ⟨⟨c, rest'⟩, h1, h⟩ := bind_ok_iff.mp h
  obtain ⟨⟨ver, c1⟩, _, h⟩ := bind_ok_iff.mp h
  obtain ⟨⟨kid, c2⟩, _, h⟩ := bind_ok_iff.mp h
  obtain ⟨⟨alg, c3⟩, _, h⟩ := bind_ok_iff.mp h
  obtain ⟨⟨ek, _⟩, _, h⟩ := bind_ok_iff.mp h
  cases h
  unfold rdSeq readSequence at h1
  obtain ⟨⟨a, n⟩, hvt, h1⟩ := map_ok_iff.mp h1
  cases h1
  have h2 := readHeader_size v hd hh
  obtain ⟨hd', hsrc, _, hn⟩ := validateTag_hd hvt
  have := hsrc hd rfl; subst this
  simp only [List.length_drop]
  have : 0 < v.length := by cases v <;> simp_all
  omega

/-- the `while recipient_infos_reader:` loop makes at most one iteration per octet of the SET -/
theorem recipientInfosUnpack_length_le (fuel : Nat) (v : Bytes) (ris : List KekRi) (h : recipientInfosUnpack fuel v = .ok ris) :
    ris.length ≤ v.length := by
  induction fuel generalizing v ris with
  | zero => cases v <;> (simp [recipientInfosUnpack] at h; subst h; simp)
  | succ f ih =>
    cases v with
    | nil => simp [recipientInfosUnpack] at h; subst h; simp
    | cons x xs =>
      simp only [recipientInfosUnpack] at h
      obtain ⟨⟨ri, rest⟩, h1, h⟩ := bind_ok_iff.mp h
      obtain ⟨more, h2, h⟩ := bind_ok_iff.mp h
      cases h
      have hc := recipientInfoUnpack_consumes (x :: xs) rest ri h1 (by simp)
      have := ih rest more h2
      simp only [List.length_cons] at hc ⊢
      omega

end DpapiNg.Blob
