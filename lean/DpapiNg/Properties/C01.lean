/-
  C01 — protect then unprotect returns the plaintext, for every input, configuration and time.
  `C : Crypto` is arbitrary subject to the functional laws `C.Laws` (unwrap∘wrap, decrypt∘encrypt,
  ECDH agreement), so the statements hold for every hash / secret agreement / key material.
-/
import DpapiNg.Proofs.ClientCore
import DpapiNg.Properties.C03
import DpapiNg.Proofs.EndToEnd
namespace DpapiNg.C01
open DpapiNg DpapiNg.Gkdi DpapiNg.Blob DpapiNg.Client

/-- `_decrypt_blob ∘ _encrypt_blob = id` whenever the decrypting side derives the same KEK. -/
theorem decrypt_encrypt (C : Crypto) (L : C.Laws) (data : Bytes) (keyS keyR : Envelope) (sid : Bytes) (d : Draws) (b : Blob)
    (hiv : d.iv.length < 2 ^ 32) (henc : encryptBlobValue C data keyS sid d = .ok b)
    (hkek : ∀ kek kid, newKek C keyS d.kekRnd = .ok (kek, kid) → getKek C keyR kid = .ok kek) :
    decryptBlob C b keyR = .ok data := Client.decrypt_encrypt C L data keyS keyR sid d b hiv henc hkek

/-- Nonce mode, any plaintext (empty, block boundaries, ≥ 64 KiB are instances), any seed-key
    envelope on the sending side, any envelope on the receiving side from which the same L2 key
    derives (C02: every conforming envelope covering the position): the plaintext comes back. -/
theorem protect_unprotect_nonce (C : Crypto) (L : C.Laws) (data : Bytes) (keyS keyR : Envelope) (sid : Bytes) (d : Draws) (b : Blob)
    (hiv : d.iv.length < 2 ^ 32) (hs : keyS.isPublicKey = false) (hr : keyR.isPublicKey = false) (hc : C03.SameConfig keyS keyR)
    (hL2 : ∀ alg, computeL2 C alg keyS.l1 keyS.l2 keyR = .ok keyS.l2Key)
    (henc : encryptBlobValue C data keyS sid d = .ok b) : decryptBlob C b keyR = .ok data :=
  decrypt_encrypt C L data keyS keyR sid d b hiv henc
    (fun kek kid hn => C03.kek_agree_nonce C keyS keyR d.kekRnd kek kid hs hr hc hL2 hn)

/-- DH public-key mode: the sender only holds the group public key; the seed holder decrypts.  Both public
    values must be valid (2 ≤ y ≤ p − 2, SP 800-56A) — the library rejects degenerate ones since fix D15 —
    and the root key's FFC parameters, when present, name the group of the public key. -/
theorem protect_unprotect_dh (C : Crypto) (L : C.Laws) (data : Bytes) (keyP keyR : Envelope) (sid : Bytes) (d : Draws) (b : Blob)
    (seed : Bytes) (alg : Hash) (kl p g : Nat)
    (hiv : d.iv.length < 2 ^ 32) (hpub : keyP.isPublicKey = true) (hr : keyR.isPublicKey = false) (hc : C03.SameConfig keyP keyR)
    (hsa : keyP.secretAlgorithm = dhName) (hL2 : ∀ a, computeL2 C a keyP.l1 keyP.l2 keyR = .ok seed)
    (hkl : kl < 2 ^ 32) (hp0 : 0 < p) (hpw : p ≤ 256 ^ kl) (hg : g < 256 ^ kl)
    (hgrp : keyP.secretParameters = [] ∨ ∃ q, ffcParamsUnpack keyP.secretParameters = .ok q ∧ q.fieldOrder = p ∧ q.generator = g)
    (hvalid_group : 1 < Py.powMod g (Py.fromBE (C.kdf alg seed kdsServiceLabel (dhName ++ [0, 0]) (Py.ceilDiv8 keyP.privateKeyLength))) p ∧
      Py.powMod g (Py.fromBE (C.kdf alg seed kdsServiceLabel (dhName ++ [0, 0]) (Py.ceilDiv8 keyP.privateKeyLength))) p < p - 1)
    (hvalid_eph : 1 < Py.powMod g (Py.fromBE d.kekRnd) p ∧ Py.powMod g (Py.fromBE d.kekRnd) p < p - 1)
    (hkey : ffcKeyPack ⟨kl, p, g, Py.powMod g
        (Py.fromBE (C.kdf alg seed kdsServiceLabel (dhName ++ [0, 0]) (Py.ceilDiv8 keyP.privateKeyLength))) p⟩ = .ok keyP.l2Key)
    (halg : ∀ n, kdfParamsUnpack keyP.kdfParameters = .ok n → hashOfName n = .ok alg)
    (henc : encryptBlobValue C data keyP sid d = .ok b) : decryptBlob C b keyR = .ok data :=
  decrypt_encrypt C L data keyP keyR sid d b hiv henc
    (fun kek kid hn => C03.kek_agree_dh C keyP keyR d.kekRnd kek seed kid alg kl p g hpub hr hc hsa hL2 hkl hp0 hpw hg hgrp hvalid_group hvalid_eph hkey hn halg)

/-- The GCM parameters the library emits are `SEQUENCE { OCTET STRING nonce, INTEGER 16 }` and the
    nonce is read back from them unchanged. -/
theorem gcm_parameters (iv : Bytes) (h : iv.length < 2 ^ 32) :
    ∃ p, gcmParams iv = .ok p ∧ gcmIv (some p) = .ok iv ∧ p ≠ [] := gcmParams_iv iv h

/-- **Protect, then unprotect on the same cache** (the commonest use of the API), for every plaintext, SID string, clock value,
    random draws and cache state whose seed entries are not public-key envelopes: if `ncrypt_protect_secret(data, sid,
    root_key_identifier=rk, cache=c)` is answered from the cache with `bytes`, then `ncrypt_unprotect_secret(bytes, cache=c)`
    returns `data` without contacting a DC.  `hcodec` is exactly C06.unpack_pack (its premises are size bounds and name validity). -/
theorem protect_then_unprotect_same_cache (C : Crypto) (L : C.Laws) (s s1 : CState) (data sid rk bytes : Bytes) (domain : Option Bytes)
    (timeNs : Nat) (d : Draws)
    (hiv : d.iv.length < 2 ^ 32)
    (hnp : ∀ k e, s.seeds k = some e → e.payload.isPublicKey = false)
    (hl0 : ∀ k e, s.seeds k = some e → e.payload.l0 = k.2.2)
    (hcodec : ∀ b, blobPack b true = .ok bytes → blobUnpack bytes = .ok b)
    (hp : protectBegin C s data sid (some rk) domain timeNs d = (.done bytes, s1)) :
    ∃ s2, unprotectBegin C s1 bytes = (.done data, s2) := by
  unfold protectBegin at hp
  cases hsd : targetSdOf sid with
  | error e => simp [hsd] at hp
  | ok sd =>
    simp only [hsd] at hp
    generalize hg : protectionGke C s sd rk timeNs = g at hp
    obtain ⟨gr, sg⟩ := g
    simp only [] at hp
    cases gr with
    | error e => simp at hp
    | ok o =>
      cases o with
      | none => simp at hp
      | some env =>
        simp only [Prod.mk.injEq] at hp
        obtain ⟨henc, hs1⟩ := hp
        obtain ⟨l0, l1, l2, envC, hn, alg, l2Key, hr1, hr2, hcg, h1, h2, h3, henv⟩ := protectionGke_some C s sg sd rk timeNs env hg
        obtain ⟨hseed, hle, hagain, hfacts⟩ := cacheGet_again C s sg sd rk l0 l1 l2 envC ⟨hr1, hr2⟩ hcg
        obtain ⟨hnpC, hl0C⟩ := hfacts (fun k e' he' => ⟨hnp k e' he', hl0 k e' he'⟩)
        subst henv
        have hnpE : (narrowed envC.payload rk l0 l1 l2 l2Key).isPublicKey = false := hnpC
        -- the protect side did not change the cache any further: the narrowed envelope is not later than the seed
        have hs1' : s1 = sg := by
          rw [← hs1]
          simp only [hnpE, Bool.false_eq_true, if_false]
          unfold cacheStore Cache.storeKey
          simp only [narrowed, Client.envOf, hseed]
          have : ¬ Cache.Pos.lt envC.pos ⟨l1, l2⟩ := by
            unfold Cache.Pos.lt; unfold Cache.Pos.le at hle; simp only at hle ⊢; omega
          simp only [this, if_false]
        subst hs1'
        cases he : encryptBlob C data (narrowed envC.payload rk l0 l1 l2 l2Key) sid d with
        | error e => simp [he, ofR] at henc
        | ok bs =>
          have hbs : bs = bytes := by simpa [he, ofR] using henc
          subst hbs
          unfold encryptBlob at he
          obtain ⟨b, hb, hpk⟩ := bind_eq_ok he
          have hun := hcodec b hpk
          have hsid := encryptBlobValue_sid C data _ sid d b hb
          obtain ⟨k1, k2, k3, k4⟩ := encryptBlobValue_keyId C data _ sid d b hb
          have hdec := decrypt_encrypt C L data _ envC.payload sid d b hiv hb
            (fun kek kid hk => getKek_narrowed C envC.payload rk l0 l1 l2 hn alg l2Key d.kekRnd kek kid hnpC hl0C h1 h2 h3 hk)
          unfold unprotectBegin
          simp only [hun, hsid, hsd, k1, k2, k3, k4, narrowed, hagain, hdec, ofR]
          exact ⟨_, rfl⟩

end DpapiNg.C01
