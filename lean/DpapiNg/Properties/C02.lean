/-
  C02 — derived group keys equal the MS-GKDI chain from any covering seed material.
  Stated over an arbitrary KDF `kdf : Key → Ctx → Key` and arbitrary context functions, so it
  holds for every hash, root key, security descriptor and L0 at once; the whole 32⁴ lattice and
  all envelope shapes are covered by the quantifiers, with no enumeration.
-/
import DpapiNg.Proofs.Chain
namespace DpapiNg.C02
open DpapiNg.Chain
variable {Key Ctx : Type} (kdf : Key → Ctx → Key) (c1 : Nat → Ctx) (c2 : Nat → Nat → Ctx)

/-- From every conforming envelope at or after the requested position the derived key is the
    chain key `K2 r1 r2`. -/
theorem computeL2_correct (k31 : Key) (env : Env Key) (h : Conforming kdf c1 c2 k31 env)
    (r1 r2 : Nat) (h1 : r1 ≤ 31) (h2 : r2 ≤ 31) (hc : r1 < env.l1 ∨ (r1 = env.l1 ∧ r2 ≤ env.l2)) :
    computeL2 kdf c1 c2 env r1 r2 = some (K2 kdf c1 c2 k31 r1 r2) := by
  cases h with
  | atL2_31 a k2 ha =>
    simp only at hc
    unfold computeL2 rejects reseed startL1
    have hg : ¬ (31 < r1 ∨ 31 < r2 ∨ 31 < a ∨ 31 < 31 ∨ a < r1 ∨ (a = r1 ∧ 31 < r2)) := by omega
    simp only [hg, if_false, true_or, if_true, ne_eq, not_true_eq_false, false_and]
    rw [walk1_K1 kdf c1 k31 a (a - r1) ha (by omega)]
    have : a - (a - r1) = r1 := by omega
    rw [this]; rfl
  | below a b k1 ha hb hk =>
    simp only at hc
    unfold computeL2 rejects reseed startL1
    have hg : ¬ (31 < r1 ∨ 31 < r2 ∨ 31 < a ∨ 31 < b ∨ a < r1 ∨ (a = r1 ∧ b < r2)) := by omega
    simp only [hg, if_false]
    by_cases e : a = r1
    · subst e
      have hb31 : b ≠ 31 := by omega
      simp [hb31, walk1]
      have := walk2_K2 kdf c1 c2 k31 a b (b - r2) (by omega) (by omega)
      rw [this]; congr 1; omega
    · have hb31 : b ≠ 31 := by omega
      have hpos : 0 < a := by omega
      simp [hb31, e]
      rw [hk hpos, walk1_K1 kdf c1 k31 (a-1) (a - 1 - r1) (by omega) (by omega)]
      have : a - 1 - (a - 1 - r1) = r1 := by omega
      rw [this]
      simp [K2]

/-- If the seed material does not cover the request, or any index is outside 0..31, no key is
    returned (the concrete model turns `none` into `ValueError`). -/
theorem computeL2_rejects (env : Env Key) (r1 r2 : Nat)
    (h : 31 < r1 ∨ 31 < r2 ∨ 31 < env.l1 ∨ 31 < env.l2 ∨ env.l1 < r1 ∨ (env.l1 = r1 ∧ env.l2 < r2)) :
    computeL2 kdf c1 c2 env r1 r2 = none := by
  unfold computeL2 rejects; simp [h]

/-- … and conversely a key is returned only for covered, in-range requests. -/
theorem computeL2_some_covered (env : Env Key) (r1 r2 : Nat) (k : Key) (h : computeL2 kdf c1 c2 env r1 r2 = some k) :
    r1 ≤ 31 ∧ r2 ≤ 31 ∧ (r1 < env.l1 ∨ (r1 = env.l1 ∧ r2 ≤ env.l2)) := by
  unfold computeL2 at h
  by_cases hr : rejects env r1 r2
  · simp [hr] at h
  · unfold rejects at hr; omega

/-- "nor loops": the number of KDF invocations is at most 63 whenever a key is returned. -/
theorem steps_le (env : Env Key) (r1 r2 : Nat) (h : ¬ rejects env r1 r2) : steps env r1 r2 ≤ 63 := by
  unfold rejects at h
  unfold steps startL1
  split <;> split <;> omega

/-- The envelope `KeyCache._get_key` builds from a root key — position (31, 31), L1 key = K1 31,
    L2 key empty — is conforming, so every in-range position is derivable from it. -/
theorem rootEnvelope_conforming (k31 : Key) (empty : Key) :
    Conforming kdf c1 c2 k31 ⟨31, 31, k31, empty⟩ := by
  have h := Conforming.atL2_31 (kdf := kdf) (c1 := c1) (c2 := c2) (k31 := k31) 31 empty (Nat.le_refl 31)
  simpa [K1, walk1] using h

theorem root_derives_everything (k31 empty : Key) (r1 r2 : Nat) (h1 : r1 ≤ 31) (h2 : r2 ≤ 31) :
    computeL2 kdf c1 c2 ⟨31, 31, k31, empty⟩ r1 r2 = some (K2 kdf c1 c2 k31 r1 r2) :=
  computeL2_correct kdf c1 c2 k31 _ (rootEnvelope_conforming kdf c1 c2 k31 empty) r1 r2 h1 h2 (by simp only []; omega)

/-- Seed-independence: any two conforming envelopes that cover the request give the same key. -/
theorem seed_independent (k31 : Key) (e₁ e₂ : Env Key) (h₁ : Conforming kdf c1 c2 k31 e₁) (h₂ : Conforming kdf c1 c2 k31 e₂)
    (r1 r2 : Nat) (hr1 : r1 ≤ 31) (hr2 : r2 ≤ 31)
    (c₁ : r1 < e₁.l1 ∨ (r1 = e₁.l1 ∧ r2 ≤ e₁.l2)) (c₂ : r1 < e₂.l1 ∨ (r1 = e₂.l1 ∧ r2 ≤ e₂.l2)) :
    computeL2 kdf c1 c2 e₁ r1 r2 = computeL2 kdf c1 c2 e₂ r1 r2 := by
  rw [computeL2_correct kdf c1 c2 k31 e₁ h₁ r1 r2 hr1 hr2 c₁, computeL2_correct kdf c1 c2 k31 e₂ h₂ r1 r2 hr1 hr2 c₂]

-- non-vacuity: position (17, 13) (the Windows vectors' position) from the root envelope, with a
-- free KDF (keys are the lists of contexts applied)
example : computeL2 (fun (k : List (Nat × Int)) c => c :: k) (fun i => (i, -1)) (fun i j => (i, (j : Int)))
    ⟨31, 31, [], []⟩ 17 13 = some (K2 (fun k c => c :: k) (fun i => (i, -1)) (fun i j => (i, (j : Int))) [] 17 13) :=
  root_derives_everything _ _ _ [] [] 17 13 (by omega) (by omega)

end DpapiNg.C02
