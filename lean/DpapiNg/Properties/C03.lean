/-
  C03 — KEK derivation agrees on both sides.  `C : Crypto` is arbitrary (so every hash and every
  KDF behaviour); DH is not abstract: `pow` is modelled and (g^x)^e ≡ (g^e)^x is proved.
-/
import DpapiNg.Proofs.Kek
namespace DpapiNg.C03
open DpapiNg DpapiNg.Gkdi

/-- same configuration on both sides (what a conforming DC guarantees for one root key) -/
structure SameConfig (a b : Envelope) : Prop where
  l0 : b.l0 = a.l0
  kdfAlg : b.kdfAlgorithm = a.kdfAlgorithm
  kdfPar : b.kdfParameters = a.kdfParameters
  secAlg : b.secretAlgorithm = a.secretAlgorithm
  secPar : b.secretParameters = a.secretParameters
  privLen : b.privateKeyLength = a.privateKeyLength

/-- Nonce mode: the KEK computed when encrypting (from a random nonce and the L2 key the sender
    holds) equals the one computed when decrypting from any envelope from which the same L2 key
    derives (C02) and the key identifier stored in the blob. -/
theorem kek_agree_nonce (C : Crypto) (es er : Envelope) (rnd kek : Bytes) (kid : KeyId)
    (hs : es.isPublicKey = false) (hr : er.isPublicKey = false) (hc : SameConfig es er)
    (hL2 : ∀ alg, computeL2 C alg es.l1 es.l2 er = .ok es.l2Key)
    (hn : newKek C es rnd = .ok (kek, kid)) : getKek C er kid = .ok kek := by
  unfold newKek at hn
  by_cases hka : es.kdfAlgorithm ≠ kdfAlgName
  · simp [hka] at hn
  · simp only [hka, if_false] at hn
    obtain ⟨hname, h1, hn⟩ := bind_eq_ok hn
    obtain ⟨alg, h2, hn⟩ := bind_eq_ok hn
    simp only [hs, Bool.false_eq_true, if_false, bind, Except.bind, pure, Except.pure, Except.ok.injEq, Prod.mk.injEq] at hn
    obtain ⟨hk, hkid⟩ := hn
    subst hkid; subst hk
    unfold getKek
    have hka' : ¬ er.kdfAlgorithm ≠ kdfAlgName := by rw [hc.kdfAlg]; exact hka
    simp only [hr, Bool.false_eq_true, if_false, hc.l0, ne_eq, not_true_eq_false, hka', hc.kdfPar, h1, h2, bind, Except.bind,
      hL2 alg, KeyId.isPublicKey]
    have : (es.flags % 2 = 1) = False := by
      have := hs; simp only [Envelope.isPublicKey, decide_eq_false_iff_not] at this; simp [this]
    simp [this, pure, Except.pure]

/-- DH public-key mode: the sender only has the group public key `y = g^x mod p` (x derived by the
    seed holder from the L2 key) and a fresh ephemeral `e`; it stores `g^e mod p` in the blob.  The
    seed holder recovers the same KEK.  Includes every shared secret / public value with leading
    zero bytes: both sides pad to `key_length`.  Since the fix that validates the peer's value (D15) both
    public values must be valid in the sense of SP 800-56A 5.6.2.3.1 (2 ≤ y ≤ p − 2; `hgy`, `hge`) and the
    root key's FFC parameters, when present, must name the same group (`hgrp`). -/
theorem kek_agree_dh (C : Crypto) (ep er : Envelope) (rnd kek seed : Bytes) (kid : KeyId) (alg : Hash) (kl p g : Nat)
    (hpub : ep.isPublicKey = true) (hr : er.isPublicKey = false) (hc : SameConfig ep er)
    (hsa : ep.secretAlgorithm = dhName)
    (hL2 : ∀ a, computeL2 C a ep.l1 ep.l2 er = .ok seed)
    (hkl : kl < 2 ^ 32) (hp0 : 0 < p) (hpw : p ≤ 256 ^ kl) (hg : g < 256 ^ kl)
    (hgrp : ep.secretParameters = [] ∨ ∃ q, ffcParamsUnpack ep.secretParameters = .ok q ∧ q.fieldOrder = p ∧ q.generator = g)
    (hvalid_group : 1 < Py.powMod g (Py.fromBE (C.kdf alg seed kdsServiceLabel (dhName ++ [0, 0]) (Py.ceilDiv8 ep.privateKeyLength))) p ∧
      Py.powMod g (Py.fromBE (C.kdf alg seed kdsServiceLabel (dhName ++ [0, 0]) (Py.ceilDiv8 ep.privateKeyLength))) p < p - 1)
    (hvalid_eph : 1 < Py.powMod g (Py.fromBE rnd) p ∧ Py.powMod g (Py.fromBE rnd) p < p - 1)
    (hkey : ffcKeyPack ⟨kl, p, g, Py.powMod g
        (Py.fromBE (C.kdf alg seed kdsServiceLabel (dhName ++ [0, 0]) (Py.ceilDiv8 ep.privateKeyLength))) p⟩ = .ok ep.l2Key)
    (hn : newKek C ep rnd = .ok (kek, kid))
    (halg : ∀ n, kdfParamsUnpack ep.kdfParameters = .ok n → hashOfName n = .ok alg) :
    getKek C er kid = .ok kek := by
  -- the group public key the sender unpacks
  generalize hx : Py.fromBE (C.kdf alg seed kdsServiceLabel (dhName ++ [0, 0]) (Py.ceilDiv8 ep.privateKeyLength)) = x at hkey
  have hy : Py.powMod g x p < 256 ^ kl := Nat.lt_of_lt_of_le (Py.powMod_lt _ _ _ hp0) hpw
  have hplt : p < 256 ^ kl ∨ p = 256 ^ kl := by omega
  have hrt := ffcKey_rt ⟨kl, p, g, Py.powMod g x p⟩ hkl
  -- p itself must fit in key_length octets for the structure to exist at all
  have hpfit : p < 256 ^ kl := by
    rcases hplt with h | h
    · exact h
    · exfalso
      unfold ffcKeyPack at hkey
      have : Py.toBytesBE ((p : Nat) : Int) kl = .error .overflowError := by
        unfold Py.toBytesBE
        have h0 : ¬ ((p : Int) < 0) := by omega
        have hnlt : ¬ (((p : Nat) : Int).toNat < 256 ^ kl) := by rw [Int.toNat_natCast]; omega
        simp only [h0, if_false, hnlt]
      simp [bind, Except.bind, this] at hkey
  have hrt := hrt hpfit hg hy
  rw [hkey] at hrt
  have hunp : ffcKeyUnpack ep.l2Key = .ok ⟨kl, p, g, Py.powMod g x p⟩ := hrt
  -- the sender
  unfold newKek at hn
  by_cases hka : ep.kdfAlgorithm ≠ kdfAlgName
  · simp [hka] at hn
  · simp only [hka, if_false] at hn
    obtain ⟨hname, h1, hn⟩ := bind_eq_ok hn
    obtain ⟨alg', h2, hn⟩ := bind_eq_ok hn
    have : alg' = alg := by have := halg hname h1; rw [h2] at this; cases this; rfl
    subst this
    have hgrp1 : GroupOk ep.secretParameters ⟨kl, p, g, Py.powMod g x p⟩ := hgrp
    have hgrp2 : GroupOk er.secretParameters ⟨kl, p, g, Py.powMod g (Py.fromBE rnd) p⟩ := by rw [hc.secPar]; exact hgrp
    simp only [hpub, if_true, hsa, computeKek_dh C alg' ep.secretParameters rnd ep.l2Key _ hunp hgrp1 (by rw [← hx]; exact hvalid_group) hpw,
      computePublicKey_dh C rnd ep.l2Key _ hunp hp0, bind, Except.bind] at hn
    -- the sender's public value packs (it is < p)
    have hmine : Py.powMod g (Py.fromBE rnd) p < 256 ^ kl := Nat.lt_of_lt_of_le (Py.powMod_lt _ _ _ hp0) hpw
    have hrt2 := ffcKey_rt ⟨kl, p, g, Py.powMod g (Py.fromBE rnd) p⟩ hkl hpfit hg hmine
    obtain ⟨ki, hki, hunp2⟩ := bind_eq_ok hrt2
    simp only [hki, pure, Except.pure, Except.ok.injEq, Prod.mk.injEq] at hn
    obtain ⟨hk, hkid⟩ := hn
    subst hkid; subst hk
    -- the seed holder
    unfold getKek
    have hka' : ¬ er.kdfAlgorithm ≠ kdfAlgName := by rw [hc.kdfAlg]; exact hka
    have hkpub : (ep.flags % 2 = 1) = True := by
      have := hpub; simp only [Envelope.isPublicKey, decide_eq_true_eq] at this; simp [this]
    simp only [hr, Bool.false_eq_true, if_false, hc.l0, ne_eq, not_true_eq_false, hka', hc.kdfPar, h1, h2, bind, Except.bind,
      hL2 alg', KeyId.isPublicKey, hkpub, decide_true, if_true, computeKekFromPublicKey, hc.secAlg, hsa, hc.privLen, hx,
      computeKek_dh C alg' er.secretParameters _ ki _ hunp2 hgrp2 hvalid_eph hpw]
    rw [Py.dh_agree g x (Py.fromBE rnd) p hp0]

/-- ECDH public-key mode, from the agreement law of the abstract group (`Crypto.Laws.ec_agree`). -/
theorem kek_agree_ec (C : Crypto) (L : C.Laws) (cv : Curve) (x e xs ys xe ye : Nat)
    (hs : C.ecPublic cv x = .ok (xs, ys)) (he : C.ecPublic cv e = .ok (xe, ye)) (alg : Hash) :
    (C.ecExchange cv e xs ys).map (kekOf C alg (curveHash cv)) = (C.ecExchange cv x xe ye).map (kekOf C alg (curveHash cv)) := by
  rw [L.ec_agree cv e x xe ye xs ys he hs]

/-- CPython's three-argument `pow`, as modelled, is modular exponentiation. -/
theorem powMod_eq (b e m : Nat) (hm : 0 < m) : Py.powMod b e m = b ^ e % m := Py.powMod_eq b e m hm

/-- Both sides pad the shared secret to `key_length`: a secret with leading zero bytes keeps them. -/
theorem shared_secret_width (s kl : Nat) (h : s < 256 ^ kl) :
    (Py.toBE s kl).length = kl ∧ Py.fromBE (Py.toBE s kl) = s := ⟨Py.toBE_length s kl, Py.fromBE_toBE s kl h⟩

/-- `math.ceil(private_key_length / 8)` -/
theorem ceilDiv8_spec (n : Nat) : 8 * Py.ceilDiv8 n ≥ n ∧ 8 * Py.ceilDiv8 n < n + 8 := by
  unfold Py.ceilDiv8; omega

end DpapiNg.C03
