/-
  C04 — a modified blob never decrypts to different plaintext.
  The property is computational, so the theorem is conditional on an explicit integrity
  idealisation of the two authenticated primitives (a premise, shown consistent by the toy
  instance in the sense that its checks are exactly these): the only inputs that verify are the
  ones the honest protect call produced.  `decrypt_dataflow` is the code-level content: which
  bytes of the blob reach which primitive, and that nothing else influences the output.
-/
import DpapiNg.Proofs.ClientCore
namespace DpapiNg.C04
open DpapiNg DpapiNg.Gkdi DpapiNg.Blob DpapiNg.Client

/-- Whatever `_decrypt_blob` returns is the GCM decryption, under the CEK obtained by unwrapping the
    *whole* `enc_cek` with the KEK bound to the blob's key identifier, with the nonce read from the
    blob's own parameters, of the *whole* `enc_content` (tag included). -/
theorem decrypt_dataflow (C : Crypto) (b : Blob) (key : Envelope) (p' : Bytes) (h : decryptBlob C b key = .ok p') :
    ∃ kek cek iv, getKek C key b.keyId = .ok kek ∧ b.encCekAlg = oidAes256Wrap ∧ C.keyUnwrap kek b.encCek = .ok cek ∧
      b.encContentAlg = oidAes256Gcm ∧ gcmIv b.encContentParams = .ok iv ∧ C.gcmDecrypt cek iv b.encContent = .ok p' := by
  unfold decryptBlob at h
  obtain ⟨kek, hk, h⟩ := bind_eq_ok h
  obtain ⟨cek, hc, h⟩ := bind_eq_ok h
  unfold cekDecrypt at hc
  by_cases ha : b.encCekAlg = oidAes256Wrap
  · simp only [ha, if_true] at hc
    unfold contentDecrypt at h
    by_cases hg : b.encContentAlg = oidAes256Gcm
    · simp only [hg, if_true] at h
      obtain ⟨iv, hiv, h⟩ := bind_eq_ok h
      exact ⟨kek, cek, iv, hk, ha, hc, hg, hiv, h⟩
    · simp [hg] at h
  · simp [ha] at hc

/-- integrity idealisation: the only (key, wrapped) that unwraps and the only (key, nonce, data)
    that decrypts are the honest ones -/
structure OnlyHonest (C : Crypto) (kek0 wcek0 cek0 iv0 ct0 : Bytes) : Prop where
  unwrap : ∀ k w c, C.keyUnwrap k w = .ok c → k = kek0 ∧ w = wcek0
  decrypt : ∀ k n c p, C.gcmDecrypt k n c = .ok p → k = cek0 ∧ n = iv0 ∧ c = ct0

/-- Under the idealisation, for EVERY blob value (not only edits of the original) and every key
    envelope: if decryption returns anything, it returns the original plaintext. -/
theorem tamper_safe (C : Crypto) (kek0 wcek0 cek0 iv0 ct0 pt : Bytes)
    (hon : OnlyHonest C kek0 wcek0 cek0 iv0 ct0) (hpt : C.gcmDecrypt cek0 iv0 ct0 = .ok pt)
    (b' : Blob) (key : Envelope) (p' : Bytes) (h : decryptBlob C b' key = .ok p') : p' = pt := by
  obtain ⟨kek, cek, iv, _, _, _, _, _, hd⟩ := decrypt_dataflow C b' key p' h
  obtain ⟨h1, h2, h3⟩ := hon.decrypt _ _ _ _ hd
  rw [h1, h2, h3, hpt] at hd
  cases hd; rfl

/-- at the API level: whatever bytes are handed to unprotect, a returned plaintext is the original -/
theorem tamper_safe_api (C : Crypto) (kek0 wcek0 cek0 iv0 ct0 pt : Bytes)
    (hon : OnlyHonest C kek0 wcek0 cek0 iv0 ct0) (hpt : C.gcmDecrypt cek0 iv0 ct0 = .ok pt)
    (s : CState) (data' p' : Bytes) (s' : CState) (h : unprotectBegin C s data' = (.done p', s')) : p' = pt := by
  unfold unprotectBegin at h
  split at h
  · cases h
  · rename_i b hb
    split at h
    · cases h
    · rename_i sd hsd
      split at h
      · cases h
      · cases h
      · rename_i env s1 hget
        simp only [Prod.mk.injEq] at h
        obtain ⟨ho, _⟩ := h
        cases hd : decryptBlob C b env.payload with
        | error e => simp [hd, ofR] at ho
        | ok q =>
          simp only [hd, ofR, Outcome.done.injEq] at ho
          subst ho
          exact tamper_safe C kek0 wcek0 cek0 iv0 ct0 pt hon hpt b env.payload q hd

/-- (fix D15) The idealisation above is about parties who cannot compute the KEK.  In DH public-key mode the KEK
    depends on a value read from the blob; a degenerate value (0, 1, p − 1 …) makes the shared secret — hence the KEK —
    predictable without any key, and a foreign modulus makes it whatever the forger likes.  The repaired `compute_kek`
    rejects both, whatever the private key: a value outside 2 … p − 2 … -/
theorem degenerate_dh_rejected (C : Crypto) (alg : Hash) (sp priv pub : Bytes) (k : FfcKey)
    (hu : ffcKeyUnpack pub = .ok k) (hbad : k.publicKey ≤ 1 ∨ k.fieldOrder - 1 ≤ k.publicKey) :
    ∃ e, computeKek C alg dhName sp priv pub = .error e := by
  unfold computeKek
  have hn : ¬ (1 < k.publicKey ∧ k.publicKey < k.fieldOrder - 1) := by omega
  simp only [if_true, hu, bind, Except.bind]
  by_cases hsp : sp = []
  · simp [hsp, hn, throw, throwThe, MonadExceptOf.throw]
  · simp only [ne_eq, hsp, not_false_eq_true, if_true]
    cases hq : ffcParamsUnpack sp with
    | error e => exact ⟨e, rfl⟩
    | ok q =>
      simp only []
      by_cases hor : k.fieldOrder ≠ q.fieldOrder ∨ k.generator ≠ q.generator
      · simp [hor, throw, throwThe, MonadExceptOf.throw]
      · simp [hor, hn, throw, throwThe, MonadExceptOf.throw]

/-- … and a value whose modulus or generator is not the root key's. -/
theorem foreign_group_rejected (C : Crypto) (alg : Hash) (sp priv pub : Bytes) (k : FfcKey) (q : FfcParams)
    (hu : ffcKeyUnpack pub = .ok k) (hsp : sp ≠ []) (hq : ffcParamsUnpack sp = .ok q)
    (hbad : k.fieldOrder ≠ q.fieldOrder ∨ k.generator ≠ q.generator) :
    computeKek C alg dhName sp priv pub = .error .valueError := by
  unfold computeKek
  simp [hu, bind, Except.bind, hsp, hq, hbad, throw, throwThe, MonadExceptOf.throw]

end DpapiNg.C04
