import DpapiNg.Model.Client
