/-
  C05 — Decrypting untrusted bytes ends promptly with a deliberate error type.
  Property theorems only; the `Safe` calculus and the per-function lemmas live in Proofs/Safe*.lean.

  `Safe r` says: `r` returns, or raises one of ValueError / NotImplementedError / NotEnoughData /
  InvalidTag / InvalidUnwrap.  The model raises IndexError / OverflowError / struct.error / TypeError /
  KeyError wherever CPython would (`Py.index`, `Py.toBytesLE/BE/LESigned`, …), so `Safe` is a real
  obligation: it failed for the pinned code at the six places repaired by the fix: commits.
  Every function is total (structural recursion or fuel bounded by the input length), which is the
  model-level content of "ends": the kernel accepted the termination proofs.
-/
import DpapiNg.Proofs.SafeKek
import DpapiNg.Proofs.Work
import DpapiNg.Proofs.Chain
namespace DpapiNg.C05
open DpapiNg DpapiNg.Asn1 DpapiNg.Blob DpapiNg.Gkdi DpapiNg.Client

/-- Every byte string whatsoever: `DPAPINGBlob.unpack` returns or raises a deliberate error. -/
theorem blobUnpack_deliberate (data : Bytes) : ∀ e, blobUnpack data = .error e → Deliberate e :=
  safe_blobUnpack data

/-- the ASN.1 readers the parser is built from, on every input, tag and peeked header -/
theorem readers_deliberate (v : Bytes) (t : Option Tag) (h : Option Header) :
    Safe (readHeader v) ∧ Safe (readInteger v t h) ∧ Safe (readOid v t h) ∧ Safe (readOctetString v t h) ∧
    Safe (readSequence v t h) ∧ Safe (readSet v t h) ∧ Safe (readBoolean v t h) ∧ Safe (readEnumerated v t h) :=
  ⟨safe_readHeader v, safe_readInteger v t h, safe_readOid v t h, safe_readOctetString v t h, safe_readSequence v t h,
    safe_readSet v t h, safe_readBoolean v t h, safe_readEnumerated v t h⟩

/-- `GroupKeyEnvelope.get_kek` for ANY envelope and ANY key identifier (L0 ≥ 2^31, L1/L2 > 31, a key_info that is not a
    DH/ECDH structure, a key_length of 2^32 − 1, a modulus of 0 …): returns or raises deliberately. -/
theorem getKek_deliberate (C : Crypto) (hC : CryptoSafe C) (e : Envelope) (kid : KeyId) (hb : IsBytes kid.keyInfo) :
    ∀ err, getKek C e kid = .error err → Deliberate err :=
  safe_getKek C hC e kid hb

/-- The SID string of the protection descriptor: ValueError or a security descriptor, never OverflowError. -/
theorem targetSd_deliberate (sid : Bytes) : ∀ e, targetSdOf sid = .error e → Deliberate e := safe_targetSdOf sid

/-- `ncrypt_unprotect_secret(data, cache=…)` for every byte string and every cache state: it returns the plaintext,
    goes to the domain controller, or raises a deliberate error. -/
theorem unprotect_deliberate (C : Crypto) (hC : CryptoSafe C) (s : CState) (data : Bytes) (hb : IsBytes data) :
    ∀ e s', unprotectBegin C s data = (.error e, s') → Deliberate e := by
  intro e s' h
  unfold unprotectBegin at h
  split at h
  · rename_i e' he'
    cases h; exact safe_blobUnpack data e he'
  · rename_i b hbl
    split at h
    · rename_i e' he'
      cases h; exact safe_targetSdOf _ e he'
    · rename_i sd hsd
      split at h
      · rename_i e' s1 hget
        cases h
        exact cacheGet_fail_deliberate C s sd _ _ _ _ e s' hget
      · cases h
      · rename_i env s1 hget
        simp only [Prod.mk.injEq] at h
        obtain ⟨ho, _⟩ := h
        have hki := blobUnpack_isBytes hb hbl
        cases hd : decryptBlob C b env.payload with
        | ok q => simp [hd, ofR] at ho
        | error e' =>
          simp only [hd, ofR, Outcome.error.injEq] at ho
          subst ho
          exact safe_decryptBlob C hC b env.payload hki e' hd

/-- … and the second half, after the DC has replied with ANY envelope (a hostile or broken DC included). -/
theorem unprotect_finish_deliberate (C : Crypto) (hC : CryptoSafe C) (s : CState) (data : Bytes) (reply : Envelope) (hb : IsBytes data) :
    ∀ e s', unprotectFinish C s data reply = (.error e, s') → Deliberate e := by
  intro e s' h
  unfold unprotectFinish at h
  split at h
  · rename_i e' he'
    cases h; exact safe_blobUnpack data e he'
  · rename_i b hbl
    split at h
    · rename_i e' he'
      cases h; exact safe_targetSdOf _ e he'
    · simp only [Prod.mk.injEq] at h
      obtain ⟨ho, _⟩ := h
      have hki := blobUnpack_isBytes hb hbl
      cases hd : decryptBlob C b reply with
      | ok q => simp [hd, ofR] at ho
      | error e' =>
        simp only [hd, ofR, Outcome.error.injEq] at ho
        subst ho
        exact safe_decryptBlob C hC b reply hki e' hd

/-- Bounded work: whatever indices an (untrusted) key identifier names, the L1/L2 walk makes at most 63 KDF
    invocations whenever it is entered at all (an out-of-range or non-covered request is rejected before the first). -/
theorem kdf_calls_le (env : Chain.Env Bytes) (r1 r2 : Nat) (h : ¬ Chain.rejects env r1 r2) : Chain.steps env r1 r2 ≤ 63 := by
  unfold Chain.rejects at h
  unfold Chain.steps Chain.startL1
  split <;> split <;> omega

/-- "parser steps proportional to input size": every data-driven loop of the blob parser (base-128 octets, OID arcs, the
    recipient-info SET) makes at most one iteration per octet it was handed; the other readers are straight-line. -/
theorem parser_loops_bounded :
    (∀ b n k, unpackOctetNumber b = .ok (n, k) → 1 ≤ k ∧ k ≤ b.length) ∧
    (∀ fuel b arcs, readArcs fuel b = .ok arcs → arcs.length ≤ b.length) ∧
    (∀ fuel v ris, recipientInfosUnpack fuel v = .ok ris → ris.length ≤ v.length) :=
  ⟨unpackOctetNumber_consumed, readArcs_length_le, recipientInfosUnpack_length_le⟩

-- non-vacuity: the toy primitives of the correspondence harness satisfy `CryptoSafe`'s shape on a sample
example : Deliberate .invalidTag ∧ Deliberate .invalidUnwrap ∧ ¬ Deliberate .indexError ∧ ¬ Deliberate .overflowError := by
  refine ⟨trivial, trivial, ?_, ?_⟩ <;> (intro h; cases h)

end DpapiNg.C05
