/-
  C06 — Emitted blobs are canonical CMS in Windows' layout; encode/decode are inverse.
  Property theorems only; helper lemmas live in Proofs/ (BlobLayout, BlobRt, Asn1*).

  `Spec/Cms.lean` is the specification: an RFC 5652 value tree (`Der`) and its X.690 DER encoding
  (`Der.encode`: identifier octets, *minimal* definite length, contents — the `tlv` of C07).  The
  model of `DPAPINGBlob.pack` (imperative nested writers) is proven equal to that encoding, and the
  model of `DPAPINGBlob.unpack` (cursor-based reader) is proven to invert it.
-/
import DpapiNg.Proofs.BlobRt
import DpapiNg.Proofs.ClientCore
namespace DpapiNg.C06
open DpapiNg DpapiNg.Asn1 DpapiNg.Blob DpapiNg.Gkdi DpapiNg.Spec.Cms DpapiNg.Client

/-- Layout: whatever `DPAPINGBlob.pack` emits is exactly the DER encoding of
    ContentInfo{envelopedData, [0] EnvelopedData{2, SET{[2] KEKRecipientInfo{4, KEKIdentifier{keyId,
    OtherKeyAttribute{microsoft-software, protection descriptor}}, alg, encCek}}, EncryptedContentInfo{data, alg, [0] content?}}}
    followed — in the trailing layout only — by the ciphertext. -/
theorem blob_layout (b : Blob) (kid : Bytes) (a1 b1 : Nat) (r1 : List Nat) (a2 b2 : Nat) (r2 : List Nat) (inEnv : Bool)
    (hk : keyIdPack b.keyId = .ok kid)
    (h1 : b.encCekAlg = a1 :: b1 :: r1) (ha1 : a1 ≤ 2) (hb1 : b1 ≤ 39)
    (h2 : b.encContentAlg = a2 :: b2 :: r2) (ha2 : a2 ≤ 2) (hb2 : b2 ≤ 39) :
    blobPack b inEnv = .ok ((blobTree kid b a1 b1 r1 a2 b2 r2 inEnv).encode ++ (if inEnv then [] else b.encContent)) :=
  blobPack_eq_spec b kid a1 b1 r1 a2 b2 r2 inEnv hk h1 ha1 hb1 h2 ha2 hb2

/-- decode(encode(x)) = x for every well-formed blob value, in both layouts. -/
theorem unpack_pack (b : Blob) (a1 b1 : Nat) (r1 : List Nat) (a2 b2 : Nat) (r2 : List Nat) (inEnv : Bool)
    (hwf : b.WF)
    (h1 : b.encCekAlg = a1 :: b1 :: r1) (ha1 : a1 ≤ 2) (hb1 : b1 ≤ 39)
    (h2 : b.encContentAlg = a2 :: b2 :: r2) (ha2 : a2 ≤ 2) (hb2 : b2 ≤ 39)
    (hlen : ∀ kid, keyIdPack b.keyId = .ok kid → ((blobTree kid b a1 b1 r1 a2 b2 r2 inEnv).encode).length < 256 ^ 127) :
    (blobPack b inEnv).bind blobUnpack = .ok b :=
  blobUnpack_blobPack b a1 b1 r1 a2 b2 r2 inEnv hwf h1 ha1 hb1 h2 ha2 hb2 hlen

/-- Decoding an emitted blob and re-encoding it yields identical bytes. -/
theorem pack_unpack_pack (b : Blob) (a1 b1 : Nat) (r1 : List Nat) (a2 b2 : Nat) (r2 : List Nat) (inEnv : Bool) (bytes : Bytes)
    (hwf : b.WF)
    (h1 : b.encCekAlg = a1 :: b1 :: r1) (ha1 : a1 ≤ 2) (hb1 : b1 ≤ 39)
    (h2 : b.encContentAlg = a2 :: b2 :: r2) (ha2 : a2 ≤ 2) (hb2 : b2 ≤ 39)
    (hlen : ∀ kid, keyIdPack b.keyId = .ok kid → ((blobTree kid b a1 b1 r1 a2 b2 r2 inEnv).encode).length < 256 ^ 127)
    (hp : blobPack b inEnv = .ok bytes) :
    (blobUnpack bytes).bind (fun b' => blobPack b' inEnv) = .ok bytes := by
  have h := unpack_pack b a1 b1 r1 a2 b2 r2 inEnv hwf h1 ha1 hb1 h2 ha2 hb2 hlen
  rw [hp] at h
  have h' : blobUnpack bytes = .ok b := h
  rw [h']; exact hp

/-- The protection descriptor round-trips for every UTF-8 SID string. -/
theorem protDesc_roundtrip (sid : Bytes) (hv : utf8Valid sid = true) (hlen : ((protDescTree sid).encode).length < 256 ^ 127) :
    (protDescPack sid).bind protDescUnpack = .ok sid := by
  rw [protDescPack_eq]; exact protDescUnpack_encode sid hv hlen

/-- Every node of the specification tree is identifier ++ minimal length ++ contents; the length octets are
    the unique minimal DER form (C07.lengthOctets_minimal), so the emitted blob is DER, not merely BER. -/
theorem encode_minimal (t : Tag) (kids : List Der) (c : Bytes) :
    (Der.cons t kids).encode = identifierOctets t ++ lengthOctets (encodeList kids).length ++ encodeList kids ∧
    (Der.prim t c).encode = identifierOctets t ++ lengthOctets c.length ++ c ∧
    (∀ n, n < 128 → lengthOctets n = [n]) ∧
    (∀ n, 128 ≤ n → ∃ ds, lengthOctets n = (ds.length + 128) :: ds ∧ Py.fromBE ds = n ∧ ds.head? ≠ some 0 ∧ ds ≠ []) := by
  refine ⟨by simp [Der.encode, tlv], by simp [Der.encode, tlv], fun n h => by simp [lengthOctets, h], fun n h => ?_⟩
  have hn : ¬ n < 128 := by omega
  have hpos := minLE_pos n (by omega)
  have key : ∀ m, 0 < m → (minLE m).getLast? ≠ some 0 := by
    intro m
    induction m using Nat.strongRecOn with
    | _ m ih =>
      intro hm
      unfold minLE
      have : ¬ m = 0 := by omega
      simp only [this, if_false]
      by_cases h2 : m / 256 = 0
      · have e : minLE (m / 256) = [] := by unfold minLE; simp [h2]
        simp only [e, List.getLast?_singleton, ne_eq, Option.some.injEq]; omega
      · have hne : minLE (m / 256) ≠ [] := by
          intro hnil; have := minLE_pos (m / 256) (by omega); simp [hnil] at this
        rw [List.getLast?_cons_of_ne_nil hne]
        exact ih (m / 256) (by omega) (by omega)
  have := key n (by omega)
  refine ⟨(minLE n).reverse, by simp [lengthOctets, hn], by simp [Py.fromBE, (minLE_spec n).1], by simpa [List.head?_reverse] using this, ?_⟩
  intro hnil; simp at hnil; simp [hnil] at hpos

/-- What `ncrypt_protect_secret` emits: AES256-wrap without parameters, AES256-GCM whose parameters are
    DER `SEQUENCE { OCTET STRING nonce, INTEGER 16 }`, the ciphertext inside the envelope, versions 2 and 4. -/
theorem protect_layout (C : Crypto) (data : Bytes) (key : Envelope) (sid : Bytes) (d : Draws) (bytes : Bytes)
    (h : encryptBlob C data key sid d = .ok bytes) :
    ∃ b kid, keyIdPack b.keyId = .ok kid ∧
      bytes = (blobTree kid b 2 16 [840, 1, 101, 3, 4, 1, 45] 2 16 [840, 1, 101, 3, 4, 1, 46] true).encode ∧
      b.encCekParams = none ∧ b.sid = sid ∧
      b.encContentParams = some (seq [.prim tOCTET d.iv, intNode 16]).encode := by
  unfold encryptBlob at h
  obtain ⟨b, hb, hp⟩ := bind_eq_ok h
  have hb' := hb
  unfold encryptBlobValue at hb
  obtain ⟨params, hpar, hb⟩ := bind_eq_ok hb
  obtain ⟨iv, _, hb⟩ := bind_eq_ok hb
  obtain ⟨ec, _, hb⟩ := bind_eq_ok hb
  obtain ⟨⟨kek, kid0⟩, _, hb⟩ := bind_eq_ok hb
  obtain ⟨ek, _, hb⟩ := bind_eq_ok hb
  cases hb
  have hparams : params = (seq [.prim tOCTET d.iv, intNode 16]).encode := by
    have hOct : tOCTET.WF := by decide
    have hInt : tINTEGER.WF := by decide
    have hSeq : tSEQ.WF := by decide
    unfold gcmParams at hpar
    simp only [packOctetString, packInteger, Option.getD, packTLV_ok tOCTET hOct, packTLV_ok tINTEGER hInt, wSeq,
      packTLV_ok tSEQ hSeq, bind, Except.bind] at hpar
    cases hpar
    simp [seq, intNode, Der.encode, encodeList]
  cases hk : keyIdPack kid0 with
  | error e =>
    unfold blobPack at hp
    simp [hk, Bind.bind, Except.bind] at hp
  | ok kid =>
    refine ⟨⟨kid0, sid, ek, oidAes256Wrap, none, ec, oidAes256Gcm, some params⟩, kid, hk, ?_, rfl, rfl, by rw [hparams]⟩
    have := blob_layout ⟨kid0, sid, ek, oidAes256Wrap, none, ec, oidAes256Gcm, some params⟩ kid 2 16 _ 2 16 _ true hk rfl (by omega) (by omega) rfl (by omega) (by omega)
    rw [this] at hp
    simp only [if_true, List.append_nil] at hp
    cases hp; rfl

-- non-vacuity: a concrete well-formed blob value satisfies the premises of `unpack_pack`
example : ParamsWF none ∧ ParamsWF (some [5, 0]) ∧ utf8Valid [83, 45, 49, 45, 53] = true := by
  refine ⟨?_, ?_, by decide +kernel⟩ <;> simp [ParamsWF]

end DpapiNg.C06
