import DpapiNg.Model.Blob
