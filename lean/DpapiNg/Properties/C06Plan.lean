/-
  C06 at the level of the programs REGENERATED from the source: what the regenerated pack plan of `DPAPINGBlob.pack` emits (with every CMS
  object packed by the regenerated ASN.1 writer programs) is the minimal DER encoding of the RFC 5652 tree in Windows' layout, and decoding
  it with the regenerated unpack plan of `DPAPINGBlob.unpack` gives back the blob — corollaries of `C06.blob_layout` / `C06.unpack_pack`
  and of the model = interpretation theorems `Blob.blobPack_eq_plan` / `Blob.blobUnpack_eq_plan`.
-/
import DpapiNg.Properties.C06
import DpapiNg.Proofs.BPlan
import DpapiNg.Proofs.UPlan
namespace DpapiNg.C06
open DpapiNg DpapiNg.Asn1 DpapiNg.Blob DpapiNg.Gkdi DpapiNg.Spec.Cms DpapiNg.Client

theorem plan_layout (b : Blob) (kid : Bytes) (a1 b1 : Nat) (r1 : List Nat) (a2 b2 : Nat) (r2 : List Nat) (inEnv : Bool)
    (hk : keyIdPack b.keyId = .ok kid)
    (h1 : b.encCekAlg = a1 :: b1 :: r1) (ha1 : a1 ≤ 2) (hb1 : b1 ≤ 39)
    (h2 : b.encContentAlg = a2 :: b2 :: r2) (ha2 : a2 ≤ 2) (hb2 : b2 ≤ 39) :
    BPlan.run call3 blobPackPlan (blobEnv b inEnv) =
      .ok ((blobTree kid b a1 b1 r1 a2 b2 r2 inEnv).encode ++ (if inEnv then [] else b.encContent)) := by
  rw [← blobPack_eq_plan]
  exact blob_layout b kid a1 b1 r1 a2 b2 r2 inEnv hk h1 ha1 hb1 h2 ha2 hb2

theorem plan_roundtrip (b : Blob) (a1 b1 : Nat) (r1 : List Nat) (a2 b2 : Nat) (r2 : List Nat) (inEnv : Bool)
    (hwf : b.WF)
    (h1 : b.encCekAlg = a1 :: b1 :: r1) (ha1 : a1 ≤ 2) (hb1 : b1 ≤ 39)
    (h2 : b.encContentAlg = a2 :: b2 :: r2) (ha2 : a2 ≤ 2) (hb2 : b2 ≤ 39)
    (hlen : ∀ kid, keyIdPack b.keyId = .ok kid → ((blobTree kid b a1 b1 r1 a2 b2 r2 inEnv).encode).length < 256 ^ 127) :
    (BPlan.run call3 blobPackPlan (blobEnv b inEnv)).bind (UPlan.run ucall blobUnpackPlan) = .ok (Blob.toVal b) := by
  rw [← blobPack_eq_plan]
  have h := unpack_pack b a1 b1 r1 a2 b2 r2 inEnv hwf h1 ha1 hb1 h2 ha2 hb2 hlen
  cases hp : blobPack b inEnv with
  | error e => rw [hp] at h; simp [Except.bind] at h
  | ok w =>
    rw [hp] at h
    simp only [Except.bind] at h ⊢
    rw [← blobUnpack_eq_plan, h]
    rfl

end DpapiNg.C06
