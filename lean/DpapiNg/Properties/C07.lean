/-
  C07 — ASN.1 DER primitives: minimal encoding, exact decoding, exact consumption.
  Property theorems only; helper lemmas live in Proofs/.
-/
import DpapiNg.Proofs.Asn1Rt
import DpapiNg.Proofs.Asn1Oid
namespace DpapiNg.C07
open DpapiNg.Asn1

/-- Content octets of the INTEGER writer decode back to the value, for every integer
    (negative carry, the 0x7F corner case and −65536-style trailing zero octets included). -/
theorem readLE_packLE (v : Int) : readLE (packLE v) = v := read_pack v

/-- The writer never emits an empty INTEGER and its octets are bytes. -/
theorem packInteger_content (v : Int) : packIntegerContent v ≠ [] ∧ IsBytes (packIntegerContent v) := by
  unfold packIntegerContent
  refine ⟨?_, ?_⟩
  · intro h; exact packLE_nonempty v (by simpa using h)
  · intro x hx; exact packLE_isBytes v x (by simpa using hx)

/-- Minimality of the INTEGER encoding: a non-negative value never has a redundant leading
    00 octet and a negative value never a redundant leading FF octet (X.690 8.3.2). -/
theorem packInteger_minimal_pos (v : Nat) : top (packLE (v : Int)) ≤ 0x7F ∧
    ((packLE (v : Int)).length > 1 → ¬ (top (packLE (v : Int)) = 0 ∧ top ((packLE (v : Int)).dropLast) < 0x80)) := by
  have hv : ¬ ((v : Int) < 0) := by omega
  simp only [packLE, hv, if_false, Int.toNat_natCast]
  exact ⟨(digitsPos_spec v).2.2.2, digitsPos_minimal v⟩

/-- `_pack_asn1` then `_read_asn1_header`: tag, header size and content length are recovered. -/
theorem readHeader_packTLV (t : Tag) (ht : t.WF) (c rest : Bytes) (hc : c.length < 256 ^ 127) :
    ∃ b, packTLV t c = .ok b ∧ readHeader (b ++ rest) = .ok ⟨t, headerLen t c.length, c.length⟩ ∧
      b.length = headerLen t c.length + c.length :=
  ⟨tlv t c, packTLV_ok t ht c, by simpa [tlv] using readHeader_packed t ht c rest hc, tlv_length t c⟩

/-- Length octets are the unique minimal DER form: short form below 128, otherwise the
    fewest big-endian octets (no leading zero octet). -/
theorem lengthOctets_minimal (n : Nat) :
    (n < 128 → lengthOctets n = [n]) ∧
    (128 ≤ n → ∃ ds, lengthOctets n = (ds.length + 128) :: ds ∧ Py.fromBE ds = n ∧ ds.head? ≠ some 0 ∧ ds ≠ []) := by
  refine ⟨fun h => by simp [lengthOctets, h], fun h => ?_⟩
  have hn : ¬ n < 128 := by omega
  refine ⟨(minLE n).reverse, by simp [lengthOctets, hn], ?_, ?_, ?_⟩
  · simp [Py.fromBE, (minLE_spec n).1]
  · -- top digit of minLE is non-zero
    have key : ∀ m, 0 < m → (minLE m).getLast? ≠ some 0 := by
      intro m
      induction m using Nat.strongRecOn with
      | _ m ih =>
        intro hm
        unfold minLE
        have : ¬ m = 0 := by omega
        simp only [this, if_false]
        by_cases h2 : m / 256 = 0
        · have e : minLE (m / 256) = [] := by unfold minLE; simp [h2]
          simp only [e, List.getLast?_singleton, ne_eq, Option.some.injEq]; omega
        · have hne : minLE (m / 256) ≠ [] := by
            intro hnil; have := minLE_pos (m / 256) (by omega); simp [hnil] at this
          rw [List.getLast?_cons_of_ne_nil hne]
          exact ih (m / 256) (by omega) (by omega)
    have := key n (by omega)
    simpa [List.head?_reverse] using this
  · have := minLE_pos n (by omega)
    intro hnil; simp at hnil; simp [hnil] at this

/-- INTEGER round trip with exact consumption, any trailing bytes. -/
theorem readInteger_packInteger (v : Int) (rest : Bytes) (hc : (packIntegerContent v).length < 256 ^ 127) :
    ∃ b, packInteger v = .ok b ∧ readInteger (b ++ rest) = .ok (v, b.length) := by
  have hwf : tINTEGER.WF := by decide
  refine ⟨tlv tINTEGER (packIntegerContent v), packTLV_ok _ hwf _, ?_⟩
  unfold readInteger
  rw [validateTag_tlv tINTEGER hwf _ rest hc none tINTEGER rfl]
  simp only [Bind.bind, Except.bind]
  have hne : (packLE v).reverse ≠ [] := (packInteger_content v).1
  simp only [packIntegerContent, hne, if_false, List.reverse_reverse, read_pack]

/-- Base-128 numbers (high tag numbers, OID arcs) round-trip with exact consumption. -/
theorem octetNumber_roundtrip (n : Nat) (hn : 0 < n) (rest : Bytes) :
    unpackOctetNumber (packOctetNumber n ++ rest) = .ok (n, (packOctetNumber n).length) :=
  unpack_pack_octetNumber n hn rest

/-- OBJECT IDENTIFIER round trip with exact consumption: every OID with first arc ≤ 2, second arc ≤ 39 and
    further arcs of any size (multi-octet base-128 arcs included), any trailing bytes. -/
theorem readOid_packOid (a b : Nat) (rest : List Nat) (ha : a ≤ 2) (hb : b ≤ 39) (tail : Bytes)
    (hlen : (oidContent a b rest).length < 256 ^ 127) :
    ∃ bs, packOid (a :: b :: rest) = .ok bs ∧ readOid (bs ++ tail) = .ok (a :: b :: rest, bs.length) :=
  ⟨_, packOid_ok a b rest ha hb, readOid_tlv a b rest ha hb tail hlen⟩

/-- OCTET STRING (and every reader that is a bare `_validate_tag`) round-trips. -/
theorem readOctetString_pack (c rest : Bytes) (hc : c.length < 256 ^ 127) :
    ∃ b, packOctetString c = .ok b ∧ readOctetString (b ++ rest) = .ok (c, b.length) := by
  have hwf : tOCTET.WF := by decide
  exact ⟨tlv tOCTET c, packTLV_ok _ hwf _, validateTag_tlv tOCTET hwf c rest hc none tOCTET rfl⟩

/-- BOOLEAN round trip. -/
theorem readBoolean_pack (v : Bool) (rest : Bytes) :
    ∃ b, packBoolean v = .ok b ∧ readBoolean (b ++ rest) = .ok (v, b.length) := by
  have hwf : tBOOLEAN.WF := by decide
  refine ⟨tlv tBOOLEAN [if v then 255 else 0], packTLV_ok _ hwf _, ?_⟩
  unfold readBoolean
  rw [validateTag_tlv tBOOLEAN hwf _ rest (by simp) none tBOOLEAN rfl]
  cases v <;> simp [Bind.bind, Except.bind]

/-- An explicit (context-specific, high-number, constructed …) tag round-trips too. -/
theorem validateTag_any (t : Tag) (ht : t.WF) (c rest : Bytes) (hc : c.length < 256 ^ 127) (typeTag : Tag) :
    validateTag (tlv t c ++ rest) (some t) typeTag none = .ok (c, (tlv t c).length) :=
  validateTag_tlv t ht c rest hc (some t) typeTag rfl

/-- The pinned reader's defect (D1), kept as a regression witness: −65536 is `FF 00 00`. -/
example : packIntegerContent (-65536) = [0xFF, 0x00, 0x00] := by decide +kernel
example : readLE [0x00, 0x00, 0xFF] = -65536 := by decide +kernel
-- non-vacuity of the TLV theorem: a context-specific constructed tag with a high number and a 200-octet content
example : (⟨2, 1000, true⟩ : Tag).WF ∧ (List.replicate 200 7).length < 256 ^ 127 := by
  refine ⟨by decide, ?_⟩; rw [List.length_replicate]; exact Nat.lt_of_lt_of_le (by omega : 200 < 256 ^ 1) (Nat.pow_le_pow_right (by omega) (by omega))

end DpapiNg.C07
