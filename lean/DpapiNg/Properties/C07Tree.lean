/-
  C07 (continued) — arbitrarily nested value trees: what the writer emits for a tree is read back, by the typed reader calls
  that mirror its schema, to the same tree with exactly the encoded octets consumed; a concatenation of values is read back
  in order with nothing left over.  (Separate module: it uses the reader lemmas of Proofs/BlobRt.)
-/
import DpapiNg.Proofs.BlobRt
namespace DpapiNg.C07
open DpapiNg DpapiNg.Asn1 DpapiNg.Blob

/-- values as `ASN1Writer` / `ASN1Reader` see them: primitives and arbitrarily nested sequences / sets -/
inductive V where
  | int (v : Int)
  | octets (b : Bytes)
  | utf8 (b : Bytes)
  | oid (a b : Nat) (rest : List Nat)
  | seq (kids : List V)
  | set (kids : List V)

mutual
/-- what the writer emits (each primitive is the `tlv` the C07 writer lemmas identify; `push_sequence` / `push_set` wrap the content) -/
def V.write : V → Bytes
  | .int v => tlv tINTEGER (packIntegerContent v)
  | .octets b => tlv tOCTET b
  | .utf8 b => tlv tUTF8 b
  | .oid a b r => tlv tOID (oidContent a b r)
  | .seq kids => tlv tSEQ (V.writeList kids)
  | .set kids => tlv tSET (V.writeList kids)
def V.writeList : List V → Bytes
  | [] => []
  | k :: ks => V.write k ++ V.writeList ks
end

mutual
/-- the typed reader calls that mirror the schema of `t` (`read_integer`, `read_sequence` then its children on the content, …):
    returns the value read and the unread rest -/
def V.read : V → Bytes → R (V × Bytes)
  | .int _, v => (rdInt v).map fun (x, r) => (.int x, r)
  | .octets _, v => (rdOctets v).map fun (x, r) => (.octets x, r)
  | .utf8 _, v => (rdUtf8 v).map fun (x, r) => (.utf8 x, r)
  | .oid _ _ _, v => (rdOid v) >>= fun (x, r) => match x with | a :: b :: rest => .ok (.oid a b rest, r) | _ => .error .valueError
  | .seq kids, v => (rdSeq v) >>= fun (c, r) => (V.readList kids c) >>= fun (ks, left) => if left = [] then .ok (.seq ks, r) else .error .valueError
  | .set kids, v => (rdSet v) >>= fun (c, r) => (V.readList kids c) >>= fun (ks, left) => if left = [] then .ok (.set ks, r) else .error .valueError
def V.readList : List V → Bytes → R (List V × Bytes)
  | [], v => .ok ([], v)
  | k :: ks, v => (V.read k v) >>= fun (x, r) => (V.readList ks r) >>= fun (xs, r') => .ok (x :: xs, r')
end

mutual
/-- sizes below the 127-length-octet limit, OIDs with valid leading arcs, UTF-8 strings valid -/
def V.WF : V → Prop
  | .int v => (packIntegerContent v).length < Lim
  | .octets b => b.length < Lim
  | .utf8 b => utf8Valid b = true ∧ b.length < Lim
  | .oid a b r => a ≤ 2 ∧ b ≤ 39 ∧ (oidContent a b r).length < Lim
  | .seq kids => V.WFList kids ∧ (V.writeList kids).length < Lim
  | .set kids => V.WFList kids ∧ (V.writeList kids).length < Lim
def V.WFList : List V → Prop
  | [] => True
  | k :: ks => V.WF k ∧ V.WFList ks
end

mutual
theorem read_write (t : V) (wf : t.WF) (rest : Bytes) : V.read t (t.write ++ rest) = .ok (t, rest) := by
  cases t with
  | int v => simp only [V.read, V.write, rdInt_tlv v rest wf, Except.map]
  | octets b => simp only [V.read, V.write, rdOctets_tlv b rest wf, Except.map]
  | utf8 b => simp only [V.read, V.write, rdUtf8_tlv b rest wf.1 wf.2, Except.map]
  | oid a b r => simp only [V.read, V.write, rdOid_tlv a b r wf.1 wf.2.1 rest wf.2.2, bind, Except.bind]
  | seq kids =>
    have h := readList_write kids wf.1 []
    simp only [List.append_nil] at h
    simp only [V.read, V.write, rdSeq_tlv _ rest wf.2, bind, Except.bind, h, if_true]
  | set kids =>
    have h := readList_write kids wf.1 []
    simp only [List.append_nil] at h
    simp only [V.read, V.write, rdSet_tlv _ rest wf.2, bind, Except.bind, h, if_true]
theorem readList_write (ts : List V) (wf : V.WFList ts) (rest : Bytes) : V.readList ts (V.writeList ts ++ rest) = .ok (ts, rest) := by
  cases ts with
  | nil => simp [V.readList, V.writeList]
  | cons k ks =>
    have h1 := read_write k wf.1 (V.writeList ks ++ rest)
    have h2 := readList_write ks wf.2 rest
    simp only [V.readList, V.writeList, List.append_assoc, h1, h2, bind, Except.bind]
end

/-- `V.write` is what the writer functions emit, node by node -/
theorem write_is_writer :
    (∀ v, packInteger v = .ok (V.write (.int v))) ∧ (∀ b, packOctetString b = .ok (V.write (.octets b))) ∧
    (∀ b, packUtf8 b = .ok (V.write (.utf8 b))) ∧
    (∀ a b r, a ≤ 2 → b ≤ 39 → packOid (a :: b :: r) = .ok (V.write (.oid a b r))) ∧
    (∀ kids, wSeq (V.writeList kids) = .ok (V.write (.seq kids))) ∧ (∀ kids, wSet (V.writeList kids) = .ok (V.write (.set kids))) := by
  refine ⟨fun v => ?_, fun b => ?_, fun b => ?_, fun a b r ha hb => ?_, fun kids => ?_, fun kids => ?_⟩
  · simp [packInteger, V.write, packTLV_ok tINTEGER (by decide)]
  · simp [packOctetString, V.write, packTLV_ok tOCTET (by decide)]
  · simp [packUtf8, V.write, packTLV_ok tUTF8 (by decide)]
  · simp [V.write, packOid_ok a b r ha hb]
  · simp [wSeq, V.write, packTLV_ok tSEQ (by decide)]
  · simp [wSet, V.write, packTLV_ok tSET (by decide)]

end DpapiNg.C07
