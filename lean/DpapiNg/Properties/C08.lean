/-
  C08 — SID and target security descriptor bytes follow MS-DTYP for every SID.
-/
import DpapiNg.Proofs.SecDesc
namespace DpapiNg.C08
open DpapiNg DpapiNg.SecDesc DpapiNg.Spec.Dtyp

theorem aclBytes_two_length (a b : Bytes) : (aclBytes [a, b]).length = 8 + a.length + b.length := by
  simp [aclBytes]; omega

/-- The independent ACL parser inverts the two-ACE DACL the library builds. -/
theorem parseAcl_target (s : Sid) (h : s.WF) (rest : Bytes) :
    parseAcl (aclBytes [aceBytes (sidBytes s) 3, aceBytes (sidBytes everyoneSid) 2] ++ rest)
      = some ([⟨0, 0, 3, s⟩, ⟨0, 0, 2, everyoneSid⟩], rest) := by
  have hl := sidBytes_length s
  have h15 := h.2.2.2.1
  have hev : everyoneSid.WF := by decide
  have hlev : (sidBytes everyoneSid).length = 12 := by rw [sidBytes_length]; rfl
  have hflat : ([aceBytes (sidBytes s) 3, aceBytes (sidBytes everyoneSid) 2] : List Bytes).flatten
      = aceBytes (sidBytes s) 3 ++ aceBytes (sidBytes everyoneSid) 2 := by simp
  have hfl : (aceBytes (sidBytes s) 3 ++ aceBytes (sidBytes everyoneSid) 2).length = 36 + 4 * s.subs.length := by
    simp only [List.length_append, aceBytes_length, hl, hlev]; omega
  simp only [aclBytes, hflat, hfl, List.length_cons, List.length_nil, toLE2, List.cons_append, List.nil_append,
    List.append_assoc, parseAcl]
  have c1 : ¬ ((2 : Nat) ≠ 2 ∨ (0 : Nat) ≠ 0 ∨ (0 : Nat) ≠ 0 ∨ (0 : Nat) ≠ 0) := by omega
  simp only [c1, if_false]
  have c2 : Py.fromLE [(0 + 1 + 1) % 256, (0 + 1 + 1) / 256 % 256] = 2 := by decide
  rw [c2]
  simp only [parseAces, parseAce_aceBytes s h 3 (by omega), parseAce_aceBytes everyoneSid hev 2 (by omega), Option.map_some]
  have e : (aceBytes (sidBytes s) 3 ++ (aceBytes (sidBytes everyoneSid) 2 ++ rest)).length - rest.length = 36 + 4 * s.subs.length := by
    rw [← List.append_assoc, List.length_append, hfl]; omega
  rw [e, fromLE2 _ (by omega)]
  simp

/-- For every well-formed SID the target security descriptor decodes, with the independent
    MS-DTYP parser, to: SYSTEM owner and group, no SACL, a DACL allowing the SID with mask 3 and
    Everyone with mask 2, control = SELF_RELATIVE | DACL_PRESENT; hence offsets, sizes and counts
    are consistent (the parser checks them). -/
theorem targetSd_layout (s : Sid) (h : s.WF) :
    parseSd (targetSd s) = some ⟨0x8004, systemSid, systemSid, none,
      some [⟨0, 0, 3, s⟩, ⟨0, 0, 2, everyoneSid⟩]⟩ := by
  have hl := sidBytes_length s
  have h15 := h.2.2.2.1
  have hsys : systemSid.WF := by decide
  have hlsys : (sidBytes systemSid).length = 12 := by rw [sidBytes_length]; rfl
  have hlev : (sidBytes everyoneSid).length = 12 := by rw [sidBytes_length]; rfl
  generalize hD : aclBytes [aceBytes (sidBytes s) 3, aceBytes (sidBytes everyoneSid) 2] = D
  have hDl : D.length = 44 + 4 * s.subs.length := by
    rw [← hD, aclBytes_two_length, aceBytes_length, aceBytes_length, hl, hlev]; omega
  have hpa := fun rest => parseAcl_target s h rest
  rw [hD] at hpa
  unfold targetSd sdBytes
  simp only [List.isEmpty_cons, Bool.false_eq_true, if_false, hD, hDl, hlsys]
  simp only [toLE2, toLE4, List.cons_append, List.nil_append, List.append_assoc]
  unfold parseSd
  simp only
  have f1 : Py.fromLE [(32768 + 4) % 256, (32768 + 4) / 256 % 256] = 32772 := by decide
  have f2 : Py.fromLE [(20 + (44 + 4 * s.subs.length)) % 256, (20 + (44 + 4 * s.subs.length)) / 256 % 256,
      (20 + (44 + 4 * s.subs.length)) / 256 / 256 % 256, (20 + (44 + 4 * s.subs.length)) / 256 / 256 / 256 % 256]
      = 20 + D.length := by rw [fromLE4 _ (by omega), hDl]
  have f3 : Py.fromLE [(20 + (44 + 4 * s.subs.length) + 12) % 256, (20 + (44 + 4 * s.subs.length) + 12) / 256 % 256,
      (20 + (44 + 4 * s.subs.length) + 12) / 256 / 256 % 256, (20 + (44 + 4 * s.subs.length) + 12) / 256 / 256 / 256 % 256]
      = 20 + (D.length + 12) := by rw [fromLE4 _ (by omega), hDl]; omega
  have f4 : Py.fromLE [0 % 256, 0 / 256 % 256, 0 / 256 / 256 % 256, 0 / 256 / 256 / 256 % 256] = 0 := by decide
  have f5 : Py.fromLE [20 % 256, 20 / 256 % 256, 20 / 256 / 256 % 256, 20 / 256 / 256 / 256 % 256] = 20 := by decide
  simp only [f1, f2, f3, f4, f5]
  have g1 : ¬ (32772 / 32768 % 2 ≠ 1) := by decide
  have g2 : ¬ ((32772 / 4 % 2 = 1) ≠ (20 ≠ 0)) := by decide
  have g3 : ¬ ((32772 / 16 % 2 = 1) ≠ ((0 : Nat) ≠ 0)) := by decide
  have g4 : ¬ (20 + D.length < 20 ∨ 20 + (D.length + 12) < 20) := by omega
  simp only [g1, g2, g3, g4, if_false]
  -- the three offsets
  have d20 : ∀ (x0 x1 x2 x3 x4 x5 x6 x7 x8 x9 x10 x11 x12 x13 x14 x15 x16 x17 x18 x19 : Nat) (t : Bytes) (k : Nat),
      (x0 :: x1 :: x2 :: x3 :: x4 :: x5 :: x6 :: x7 :: x8 :: x9 :: x10 :: x11 :: x12 :: x13 :: x14 :: x15 :: x16 :: x17 :: x18 :: x19 :: t).drop (20 + k)
        = t.drop k := by
    intros; rw [← List.drop_drop]; rfl
  rw [d20, d20]
  have d0 : ∀ (x0 x1 x2 x3 x4 x5 x6 x7 x8 x9 x10 x11 x12 x13 x14 x15 x16 x17 x18 x19 : Nat) (t : Bytes),
      (x0 :: x1 :: x2 :: x3 :: x4 :: x5 :: x6 :: x7 :: x8 :: x9 :: x10 :: x11 :: x12 :: x13 :: x14 :: x15 :: x16 :: x17 :: x18 :: x19 :: t).drop 20
        = t := by intros; rfl
  rw [d0]
  rw [Py.drop_prefix D _ D.length rfl]
  have : D ++ (sidBytes systemSid ++ sidBytes systemSid) = (D ++ sidBytes systemSid) ++ sidBytes systemSid := by simp
  rw [this, Py.drop_prefix (D ++ sidBytes systemSid) _ (D.length + 12) (by simp [hlsys])]
  rw [parseSid_sidBytes systemSid hsys]
  have := parseSid_sidBytes systemSid hsys []
  simp only [List.append_nil] at this
  rw [this]
  simp only [List.append_assoc, hpa]
  simp

/-- Distinct SIDs give distinct bytes (binary SID, hence ACE, hence descriptor). -/
theorem sid_bytes_injective (s₁ s₂ : Sid) (h₁ : s₁.WF) (h₂ : s₂.WF) (h : sidBytes s₁ = sidBytes s₂) : s₁ = s₂ := by
  have a := parseSid_sidBytes s₁ h₁ []
  have b := parseSid_sidBytes s₂ h₂ []
  rw [h] at a; rw [a] at b
  simpa using b

theorem targetSd_injective (s₁ s₂ : Sid) (h₁ : s₁.WF) (h₂ : s₂.WF) (h : targetSd s₁ = targetSd s₂) : s₁ = s₂ := by
  have a := targetSd_layout s₁ h₁
  have b := targetSd_layout s₂ h₂
  rw [h] at a; rw [a] at b
  simpa using b

/-- Whatever string the parser accepts denotes an in-range SID … -/
theorem parseSidStr_wf (str : List Char) (s : Sid) (h : parseSidStr str = .ok s) : s.WF := by
  unfold parseSidStr at h
  simp only at h
  split at h
  · cases h
  · rename_i hg
    split at h
    · rename_i r a subs heq
      split at h
      · cases h
      · split at h
        · cases h
        · rename_i ha hs
          cases h
          have hg := Decidable.not_not.mp hg
          simp only [heq, grammarOk, Bool.and_eq_true, decide_eq_true_eq] at hg
          obtain ⟨⟨⟨⟨⟨_, hr1⟩, hrd⟩, _⟩, hlo⟩, hhi⟩ := hg
          refine ⟨?_, by show decVal a < 2 ^ 48; omega, by simp at hlo ⊢; omega, by simp at hhi ⊢; omega, ?_⟩
          · -- one ASCII digit
            match r, hr1, hrd with
            | [c], _, hrd =>
              simp only [allDigits, List.isEmpty_cons, Bool.not_false, List.all_cons, List.all_nil, Bool.and_true,
                Bool.true_and, isDigit, Bool.and_eq_true, decide_eq_true_eq] at hrd
              simp only [decVal, List.foldl]
              have h0 : '0'.toNat = 48 := rfl
              have h9 : '9'.toNat = 57 := rfl
              have l1 : 48 ≤ c.toNat := by
                have := hrd.1; rw [Char.le_def, UInt32.le_iff_toNat_le] at this; exact this
              have l2 : c.toNat ≤ 57 := by
                have := hrd.2; rw [Char.le_def, UInt32.le_iff_toNat_le] at this; exact this
              omega
          · intro x hx
            simp only [List.mem_map] at hx
            obtain ⟨p, hp, rfl⟩ := hx
            simp only [List.any_eq_true, decide_eq_true_eq, not_exists, not_and] at hs
            have := hs p hp
            omega
    · cases h

/-- … and every rejection is a `ValueError` (never a crash, never silent alteration). -/
theorem parseSidStr_rejects (str : List Char) (e : PyErr) (h : parseSidStr str = .error e) : e = .valueError := by
  unfold parseSidStr at h
  simp only at h
  split at h
  · cases h; rfl
  · split at h
    · split at h
      · cases h; rfl
      · split at h
        · cases h; rfl
        · cases h
    · cases h; rfl

/-- The near-miss classes the property names are rejected by the grammar. -/
example : parseSidStr "S-1-5-4294967296".toList = .error .valueError := by decide +kernel
example : parseSidStr "S-1-281474976710656-1".toList = .error .valueError := by decide +kernel
example : parseSidStr "S-1-5-18\n".toList = .error .valueError := by decide +kernel
example : parseSidStr "S-1-5".toList = .error .valueError := by decide +kernel
example : parseSidStr "S-1-5-1-2-3-4-5-6-7-8-9-10-11-12-13-14-15-16".toList = .error .valueError := by decide +kernel
example : parseSidStr "S-1-5--18".toList = .error .valueError := by decide +kernel
example : parseSidStr "s-1-5-18".toList = .error .valueError := by decide +kernel
example : parseSidStr "S-1-5-+18".toList = .error .valueError := by decide +kernel
example : parseSidStr "S-10-5-18".toList = .error .valueError := by decide +kernel
-- non-vacuity
example : parseSidStr "S-1-5-21-0-4294967295-1103".toList = .ok ⟨1, 5, [21, 0, 4294967295, 1103]⟩ := by decide +kernel
example : (⟨1, 5, [21, 0, 4294967295, 1103]⟩ : Sid).WF := by decide

end DpapiNg.C08
