/-
  C09 — encryption names the group key of the interval containing the current time.
  Property theorems only; helper lemmas live in Proofs/.
-/
import DpapiNg.Model.Time
import DpapiNg.Proofs.TrueDiv
namespace DpapiNg.C09
open DpapiNg.Time

/-- The key id is exactly the MS-GKDI closed form, for every clock value. -/
theorem keyId_of_time (t : Nat) :
    indices t = (t / (1024 * 360000000000), (t / (32 * 360000000000)) % 32, (t / 360000000000) % 32) := by
  simp [indices, l0, l1, l2, base]

/-- The named interval contains `t`: never a future or a past interval. -/
theorem keyId_interval (t : Nat) :
    base * (1024 * l0 t + 32 * l1 t + l2 t) ≤ t ∧ t < base * (1024 * l0 t + 32 * l1 t + l2 t + 1) := by
  unfold l0 l1 l2 base; omega

/-- Indices are always in range. -/
theorem indices_in_range (t : Nat) : l1 t ≤ 31 ∧ l2 t ≤ 31 := by
  unfold l1 l2; omega

/-- The interval is unique: any in-range triple whose interval contains `t` is the one named. -/
theorem keyId_unique (t a b c : Nat) (hb : b ≤ 31) (hc : c ≤ 31)
    (h : base * (1024 * a + 32 * b + c) ≤ t ∧ t < base * (1024 * a + 32 * b + c + 1)) :
    (a, b, c) = indices t := by
  unfold indices l0 l1 l2 base at *; simp only [Prod.mk.injEq]; omega

/-- Blobs never name a future interval as time advances: the linearised index is monotone. -/
theorem keyId_monotone (t t' : Nat) (h : t ≤ t') :
    1024 * l0 t + 32 * l1 t + l2 t ≤ 1024 * l0 t' + 32 * l1 t' + l2 t' := by
  unfold l0 l1 l2 base; omega

/-- The historical defect (D3): the float quotient rounds up just before an L0 boundary. -/
theorem float_l0_wrong :
    Py.trueDivTrunc (363 * 368640000000000 - 1) 368640000000000 ≠ (363 * 368640000000000 - 1) / 368640000000000 := by
  decide +kernel

/-- The float quotients the code still uses for L1/L2 are exact (so those lines are correct). -/
theorem float_l1_exact (t : Nat) :
    Py.trueDivTrunc (t % (32 * 32 * base)) (32 * base) = l1 t := by
  rw [Py.trueDivTrunc_small _ _ (by unfold base; omega) (by unfold base; omega) (by unfold base; omega)]
  unfold l1 base; omega

theorem float_l2_exact (t : Nat) :
    Py.trueDivTrunc (t % (32 * base)) base = l2 t := by
  rw [Py.trueDivTrunc_small _ _ (by unfold base; omega) (by unfold base; omega) (by unfold base; omega)]
  unfold l2 base; omega

-- non-vacuity: a concrete instant (2023-06-01T00:00:00Z) and its interval
example : indices (currentTime 1685577600000000000) = (361, 19, 7) := by decide +kernel
example : indices (363 * 368640000000000 - 1) = (362, 31, 31) := by decide +kernel

end DpapiNg.C09
