/-
  C09 at the level of the public function: whatever the shared cache holds — any state, so after any history of
  root-key loads, protects and unprotects — a protect answered from the cache emits a blob whose key identifier
  names the MS-GKDI interval containing the CURRENT clock value.
-/
import DpapiNg.Proofs.EndToEnd
namespace DpapiNg.C09
open DpapiNg DpapiNg.Client DpapiNg.Gkdi DpapiNg.Blob

/-- the envelope `_get_protection_gke_from_cache` hands to the encryptor names the interval of the current instant,
    for EVERY cache state (nothing remembered from earlier calls can change it) -/
theorem protectionGke_names_now (C : Crypto) (s s' : CState) (sd rk : Bytes) (timeNs : Nat) (env : Envelope)
    (h : protectionGke C s sd rk timeNs = (.ok (some env), s')) :
    (env.l0, env.l1, env.l2) = Time.indices (Time.currentTime timeNs) := by
  unfold protectionGke at h
  simp only [] at h
  generalize hcg : cacheGet C s sd rk (Time.l0 (Time.currentTime timeNs)) (Time.l1 (Time.currentTime timeNs)) (Time.l2 (Time.currentTime timeNs)) = cg at h
  obtain ⟨got, sg⟩ := cg
  cases got with
  | fail e => simp at h
  | miss => simp at h
  | hit envC =>
    simp only [Prod.mk.injEq] at h
    obtain ⟨hr, _⟩ := h
    obtain ⟨hn, _, hr⟩ := bind_eq_ok hr
    obtain ⟨alg, _, hr⟩ := bind_eq_ok hr
    obtain ⟨l2Key, _, hr⟩ := bind_eq_ok hr
    simp only [pure, Except.pure, Except.ok.injEq, Option.some.injEq] at hr
    subst hr
    rfl

/-- **the blob**: when `ncrypt_protect_secret` naming a root key is answered from the cache, the emitted bytes are the
    encoding of a blob whose key identifier carries exactly `indices(now)` — for every cache state, plaintext, SID,
    draws and clock value (sub-tick nanoseconds included: `currentTime` floors to 100 ns ticks) -/
theorem protect_blob_names_now (C : Crypto) (s s' : CState) (data sid rk : Bytes) (dom : Option Bytes) (timeNs : Nat) (d : Draws)
    (out : Bytes) (h : protectBegin C s data sid (some rk) dom timeNs d = (.done out, s')) :
    ∃ b : Blob, blobPack b true = .ok out ∧
      (b.keyId.l0, b.keyId.l1, b.keyId.l2) = Time.indices (Time.currentTime timeNs) ∧ b.keyId.rootKeyId = rk := by
  unfold protectBegin at h
  cases hsd : targetSdOf sid with
  | error e => simp [hsd] at h
  | ok sd =>
    simp only [hsd] at h
    generalize hg : protectionGke C s sd rk timeNs = g at h
    obtain ⟨r, s1⟩ := g
    cases r with
    | error e => simp at h
    | ok o =>
      cases o with
      | none => simp at h
      | some env =>
        simp only [Prod.mk.injEq] at h
        obtain ⟨ho, _⟩ := h
        unfold ofR at ho
        cases he : encryptBlob C data env sid d with
        | error e => simp [he] at ho
        | ok bytes =>
          simp only [he, Outcome.done.injEq] at ho
          subst ho
          unfold encryptBlob at he
          obtain ⟨b, hb, hp⟩ := bind_eq_ok he
          have hk := encryptBlobValue_keyId C data env sid d b hb
          have hn := protectionGke_names_now C s s1 sd rk timeNs env hg
          obtain ⟨_, _, _, _, _, _, _, _, _, _, _, _, _, henv⟩ := protectionGke_some C s s1 sd rk timeNs env hg
          refine ⟨b, hp, ?_, ?_⟩
          · rw [hk.2.1, hk.2.2.1, hk.2.2.2]; exact hn
          · rw [hk.1, henv]; rfl

-- non-vacuity of the clock part: 2023-06-01T00:00:00.000000099Z (a sub-tick instant) lies in (361, 19, 7)
example : Time.indices (Time.currentTime 1685577600000000099) = (361, 19, 7) := by decide +kernel

end DpapiNg.C09
