/-
  C10 — KeyCache is transparent under any history/interleaving and avoids repeat RPCs.
  All statements are over arbitrary lists of atomic steps (load / get / store / storeBack), i.e.
  every history and every interleaving of concurrently running calls, with no depth bound.
-/
import DpapiNg.Model.Cache
import DpapiNg.Properties.C02
namespace DpapiNg.C10
open DpapiNg.Cache

section
variable {K R P RK E : Type} [DecidableEq K] [DecidableEq R]
variable (rkOf : K → R) (rootEnv : RK → K → Except E P)
variable (Genuine : K → Env P → Prop) (RootOk : R → RK → Prop)

/-- every stored envelope is genuine for its key and in range; every loaded root key is a real one -/
def CInv (s : State K R P RK) : Prop :=
  (∀ k e, s.seeds k = some e → Genuine k e ∧ e.pos.InRange) ∧ (∀ r p, s.roots r = some p → RootOk r p)

/-- admissibility of a step in a state: what comes from outside (root keys, DC replies) is genuine;
    what the client stores back is at or before what the cache already holds for that key -/
def OkAt (s : State K R P RK) : Op K R P RK → Prop
  | .load r p => RootOk r p
  | .get _ _ => True
  | .store k e => Genuine k e ∧ e.pos.InRange
  | .storeBack k e => ∃ ex, s.seeds k = some ex ∧ Pos.le e.pos ex.pos

def Admissible (s : State K R P RK) : List (Op K R P RK) → Prop
  | [] => True
  | op :: rest => OkAt Genuine RootOk s op ∧ Admissible (step rkOf rootEnv s op) rest

variable (hroot : ∀ k r pl, RootOk (rkOf k) r → rootEnv r k = .ok pl → Genuine k ⟨Pos.top, pl⟩)

theorem storeBack_noop (s : State K R P RK) (k : K) (e ex : Env P) (h : s.seeds k = some ex) (hle : Pos.le e.pos ex.pos) :
    storeKey s k e = s := by
  unfold storeKey
  rw [h]
  have : ¬ Pos.lt ex.pos e.pos := by unfold Pos.lt; unfold Pos.le at hle; omega
  simp [this]

theorem inv_empty : CInv Genuine RootOk (State.empty : State K R P RK) :=
  ⟨fun _ _ h => by simp [State.empty] at h, fun _ _ h => by simp [State.empty] at h⟩

include hroot in
theorem inv_step (s : State K R P RK) (op : Op K R P RK) (h : CInv Genuine RootOk s) (hop : OkAt Genuine RootOk s op) :
    CInv Genuine RootOk (step rkOf rootEnv s op) := by
  obtain ⟨hs, hr⟩ := h
  cases op with
  | load r p =>
    refine ⟨hs, ?_⟩
    intro r' p' h'
    simp only [step, loadKey] at h'
    split at h'
    · cases h'; rename_i e; subst e; exact hop
    · exact hr r' p' h'
  | get k p =>
    have hfr : CInv Genuine RootOk (fromRoot rkOf rootEnv s k).2 := by
      unfold fromRoot
      split
      · rename_i r hrr
        split
        · rename_i pl hpl
          refine ⟨?_, hr⟩
          intro k' e' h'
          simp only [setSeed] at h'
          split at h'
          · cases h'; rename_i e; subst e
            exact ⟨hroot _ r pl (hr _ r hrr) hpl, by simp [Pos.InRange, Pos.top]⟩
          · exact hs k' e' h'
        · exact ⟨hs, hr⟩
      · exact ⟨hs, hr⟩
    simp only [step, getKey]
    split
    · split
      · exact ⟨hs, hr⟩
      · exact hfr
    · exact hfr
  | store k e =>
    have hset : CInv Genuine RootOk (setSeed s k e) := by
      refine ⟨?_, hr⟩
      intro k' e' h'
      simp only [setSeed] at h'
      split at h'
      · cases h'; rename_i ek; subst ek; exact hop
      · exact hs k' e' h'
    simp only [step, storeKey]
    split
    · exact hset
    · split
      · exact hset
      · exact ⟨hs, hr⟩
  | storeBack k e =>
    obtain ⟨ex, hex, hle⟩ := hop
    simp only [step, storeBack_noop s k e ex hex hle]
    exact ⟨hs, hr⟩

include hroot in
/-- the invariant holds after every admissible history / interleaving -/
theorem inv_run (ops : List (Op K R P RK)) (s : State K R P RK) (h : CInv Genuine RootOk s)
    (hops : Admissible rkOf rootEnv Genuine RootOk s ops) : CInv Genuine RootOk (run rkOf rootEnv s ops) := by
  induction ops generalizing s with
  | nil => exact h
  | cons op ops ih =>
    exact ih _ (inv_step rkOf rootEnv Genuine RootOk hroot s op h hops.1) hops.2

include hroot in
/-- whatever `_get_key` returns covers the request and is genuine (false of the pinned `setdefault`: D6) -/
theorem get_covers (s : State K R P RK) (k : K) (p : Pos) (hp : p.InRange) (h : CInv Genuine RootOk s)
    (e : Env P) (hg : (getKey rkOf rootEnv s k p).1 = .hit e) : Pos.le p e.pos ∧ Genuine k e := by
  obtain ⟨hs, hr⟩ := h
  have hfr : (fromRoot rkOf rootEnv s k).1 = .hit e → Pos.le p e.pos ∧ Genuine k e := by
    intro hf
    unfold fromRoot at hf
    split at hf
    · rename_i r hrr
      split at hf
      · rename_i pl hpl; cases hf; exact ⟨Pos.le_top hp, hroot _ r pl (hr _ r hrr) hpl⟩
      · cases hf
    · cases hf
  simp only [getKey] at hg
  split at hg
  · rename_i ex hex
    split at hg
    · rename_i hle; cases hg; exact ⟨hle, (hs k _ hex).1⟩
    · exact hfr hg
  · exact hfr hg

/-- after a hit the cache holds exactly the envelope it returned -/
theorem get_stores (s : State K R P RK) (k : K) (p : Pos) (e : Env P) (hg : (getKey rkOf rootEnv s k p).1 = .hit e) :
    (getKey rkOf rootEnv s k p).2.seeds k = some e := by
  have hfr : (fromRoot rkOf rootEnv s k).1 = .hit e → (fromRoot rkOf rootEnv s k).2.seeds k = some e := by
    intro hf
    unfold fromRoot at hf ⊢
    split
    · split
      · rename_i pl hpl; simp only [*] at hf; cases hf; simp [setSeed]
      · simp only [*] at hf; cases hf
    · simp only [*] at hf; cases hf
  simp only [getKey] at hg ⊢
  split
  · rename_i ex hex
    split
    · rename_i hle; simp only [hex, hle, if_true] at hg; cases hg; exact hex
    · rename_i hle; simp only [hex, hle, if_false] at hg; exact hfr hg
  · rename_i hnone; simp only [hnone] at hg; exact hfr hg

/-- position p of key k is covered: a cached envelope at or after p, or the root key is loaded -/
def Covers (s : State K R P RK) (k : K) (p : Pos) : Prop :=
  (∃ e, s.seeds k = some e ∧ Pos.le p e.pos) ∨ (s.roots (rkOf k)).isSome

theorem covers_step (s : State K R P RK) (op : Op K R P RK) (k : K) (p : Pos) (hp : p.InRange)
    (hop : OkAt Genuine RootOk s op) (h : Covers rkOf s k p) : Covers rkOf (step rkOf rootEnv s op) k p := by
  cases op with
  | load r q =>
    rcases h with h | h
    · exact Or.inl h
    · right; simp only [step, loadKey]; split <;> simp_all
  | get k' p' =>
    have hset : ∀ g : Env P, g.pos = Pos.top → Covers rkOf (setSeed s k' g) k p := by
      intro g hgp
      rcases h with ⟨e, he, hle⟩ | h
      · left; simp only [setSeed]
        by_cases hk : k = k'
        · exact ⟨g, by simp [hk], by rw [hgp]; exact Pos.le_top hp⟩
        · exact ⟨e, by simp [hk, he], hle⟩
      · exact Or.inr h
    have hfr : Covers rkOf (fromRoot rkOf rootEnv s k').2 k p := by
      unfold fromRoot
      split
      · split
        · exact hset _ rfl
        · exact h
      · exact h
    simp only [step, getKey]
    split
    · split
      · exact h
      · exact hfr
    · exact hfr
  | store k' e' =>
    have hset : (∀ ex, s.seeds k' = some ex → Pos.lt ex.pos e'.pos) → Covers rkOf (setSeed s k' e') k p := by
      intro hlater
      rcases h with ⟨e, he, hle⟩ | h
      · left; simp only [setSeed]
        by_cases hk : k = k'
        · subst hk
          exact ⟨e', by simp, Pos.le_trans hle (Pos.le_of_lt (hlater e he))⟩
        · exact ⟨e, by simp [hk, he], hle⟩
      · exact Or.inr h
    simp only [step, storeKey]
    split
    · rename_i hnone; exact hset (fun ex hex => by rw [hnone] at hex; cases hex)
    · rename_i ex hex
      split
      · rename_i hlt; exact hset (fun ex' hex' => by rw [hex] at hex'; cases hex'; exact hlt)
      · exact h
  | storeBack k' e' =>
    obtain ⟨ex, hex, hle⟩ := hop
    simp only [step, storeBack_noop s k' e' ex hex hle]
    exact h

/-- every history / interleaving: once covered, always covered -/
theorem covers_run (ops : List (Op K R P RK)) (s : State K R P RK) (k : K) (p : Pos) (hp : p.InRange)
    (hops : Admissible rkOf rootEnv Genuine RootOk s ops) (h : Covers rkOf s k p) :
    Covers rkOf (run rkOf rootEnv s ops) k p := by
  induction ops generalizing s with
  | nil => exact h
  | cons op ops ih => exact ih _ hops.2 (covers_step rkOf rootEnv Genuine RootOk s op k p hp hops.1 h)

/-- … and a covered position never goes back to the DC: `_get_key` does not return `None` -/
theorem no_repeat_rpc (s : State K R P RK) (k : K) (p : Pos) (h : Covers rkOf s k p) :
    (getKey rkOf rootEnv s k p).1 ≠ .miss := by
  have hfr : (s.roots (rkOf k)).isSome → (fromRoot rkOf rootEnv s k).1 ≠ .miss := by
    intro hsome
    unfold fromRoot
    split
    · split <;> simp
    · rename_i hn; rw [hn] at hsome; cases hsome
  simp only [getKey]
  rcases h with ⟨e, he, hle⟩ | h
  · rw [he]; simp [hle]
  · split
    · split
      · simp
      · exact hfr h
    · exact hfr h

/-- a DC reply for position q, once stored, covers every p ≤ q -/
theorem store_covers (s : State K R P RK) (k : K) (e : Env P) (p : Pos) (hle : Pos.le p e.pos) :
    Covers rkOf (step rkOf rootEnv s (.store k e)) k p := by
  left
  simp only [step, storeKey]
  split
  · exact ⟨e, by simp [setSeed], hle⟩
  · rename_i ex hex
    split
    · exact ⟨e, by simp [setSeed], hle⟩
    · rename_i hnl
      refine ⟨ex, hex, ?_⟩
      unfold Pos.lt at hnl; unfold Pos.le at hle ⊢; omega

include hroot in
/-- positions only move forward: what justifies every later `storeBack` of an envelope that is at or
    before something a `get` once returned -/
theorem pos_monotone (s : State K R P RK) (op : Op K R P RK) (k : K) (e : Env P) (h : CInv Genuine RootOk s)
    (hop : OkAt Genuine RootOk s op) (he : s.seeds k = some e) :
    ∃ e', (step rkOf rootEnv s op).seeds k = some e' ∧ Pos.le e.pos e'.pos := by
  have hin := (h.1 k e he).2
  have hrefl : Pos.le e.pos e.pos := by unfold Pos.le; omega
  cases op with
  | load r p => exact ⟨e, he, hrefl⟩
  | get k' p' =>
    simp only [step, getKey]
    have hset : ∀ g : Env P, g.pos = Pos.top → ∃ e', (setSeed s k' g).seeds k = some e' ∧ Pos.le e.pos e'.pos := by
      intro g hg
      by_cases hk : k = k'
      · exact ⟨g, by simp [setSeed, hk], by rw [hg]; exact Pos.le_top hin⟩
      · exact ⟨e, by simp [setSeed, hk, he], hrefl⟩
    have hfr : ∃ e', (fromRoot rkOf rootEnv s k').2.seeds k = some e' ∧ Pos.le e.pos e'.pos := by
      unfold fromRoot
      split
      · split
        · exact hset _ rfl
        · exact ⟨e, he, hrefl⟩
      · exact ⟨e, he, hrefl⟩
    split
    · split
      · exact ⟨e, he, hrefl⟩
      · exact hfr
    · exact hfr
  | store k' e' =>
    simp only [step, storeKey]
    by_cases hk : k = k'
    · subst hk
      rw [he]
      by_cases hlt : Pos.lt e.pos e'.pos
      · simp only [hlt, if_true]
        exact ⟨e', by simp [setSeed], Pos.le_of_lt hlt⟩
      · simp only [hlt, if_false]; exact ⟨e, he, hrefl⟩
    · split
      · exact ⟨e, by simp [setSeed, hk, he], hrefl⟩
      · split
        · exact ⟨e, by simp [setSeed, hk, he], hrefl⟩
        · exact ⟨e, he, hrefl⟩
  | storeBack k' e' =>
    obtain ⟨ex, hex, hle⟩ := hop
    simp only [step, storeBack_noop s k' e' ex hex hle]
    exact ⟨e, he, hrefl⟩

include hroot in
theorem pos_monotone_run (ops : List (Op K R P RK)) (s : State K R P RK) (k : K) (e : Env P) (h : CInv Genuine RootOk s)
    (hops : Admissible rkOf rootEnv Genuine RootOk s ops) (he : s.seeds k = some e) :
    ∃ e', (run rkOf rootEnv s ops).seeds k = some e' ∧ Pos.le e.pos e'.pos := by
  induction ops generalizing s e with
  | nil => exact ⟨e, he, by unfold Pos.le; omega⟩
  | cons op ops ih =>
    obtain ⟨e1, h1, hle1⟩ := pos_monotone rkOf rootEnv Genuine RootOk hroot s op k e h hops.1 he
    obtain ⟨e2, h2, hle2⟩ := ih _ e1 (inv_step rkOf rootEnv Genuine RootOk hroot s op h hops.1) hops.2 h1
    exact ⟨e2, h2, Pos.le_trans hle1 hle2⟩

include hroot in
/-- an async call's late `_store_key` of an envelope at or before what its own `_get_key` returned is
    admissible after any admissible steps of other calls in between (so its `storeBack` is a no-op) -/
theorem storeBack_admissible (s : State K R P RK) (k : K) (p : Pos) (e0 e : Env P) (between : List (Op K R P RK))
    (h : CInv Genuine RootOk s) (hg : (getKey rkOf rootEnv s k p).1 = .hit e0) (hle : Pos.le e.pos e0.pos)
    (hb : Admissible rkOf rootEnv Genuine RootOk (step rkOf rootEnv s (.get k p)) between) :
    OkAt Genuine RootOk (run rkOf rootEnv (step rkOf rootEnv s (.get k p)) between) (.storeBack k e) := by
  have h1 := inv_step rkOf rootEnv Genuine RootOk hroot s (.get k p) h trivial
  have hs : (step rkOf rootEnv s (.get k p)).seeds k = some e0 := get_stores rkOf rootEnv s k p e0 hg
  obtain ⟨e', he', hle'⟩ := pos_monotone_run rkOf rootEnv Genuine RootOk hroot between _ k e0 h1 hb hs
  exact ⟨e', he', Pos.le_trans hle hle'⟩

end

/-! ### transparency at the key level: payload = (L1 key, L2 key), genuine = conforming to the chain -/
section
open DpapiNg.Chain
variable {K R Key Ctx RK E : Type} [DecidableEq K] [DecidableEq R]
variable (rkOf : K → R) (rootEnv : RK → K → Except E (Key × Key))
variable (kdf : Key → Ctx → Key) (c1 : K → Nat → Ctx) (c2 : K → Nat → Nat → Ctx) (k31 : K → Key)

def chainEnvOf (e : Cache.Env (Key × Key)) : Chain.Env Key := ⟨e.pos.l1, e.pos.l2, e.payload.1, e.payload.2⟩

def GenuineChain (k : K) (e : Cache.Env (Key × Key)) : Prop :=
  Conforming kdf (c1 k) (c2 k) (k31 k) (chainEnvOf e)

variable (RootOk : R → RK → Prop)
variable (hroot : ∀ k r pl, RootOk (rkOf k) r → rootEnv r k = .ok pl → GenuineChain kdf c1 c2 k31 k ⟨Pos.top, pl⟩)

include hroot in
/-- Transparency: after ANY admissible history / interleaving starting from the empty cache, if the
    cache answers a request at all, the L2 key derived from what it returns is the chain key
    `K2 p.l1 p.l2` — the same key a fresh cache (root key or DC reply) would give — after at most 63
    KDF invocations. -/
theorem transparent (ops : List (Op K R (Key × Key) RK)) (k : K) (p : Pos) (hp : p.InRange)
    (hops : Admissible rkOf rootEnv (GenuineChain kdf c1 c2 k31) RootOk State.empty ops)
    (e : Cache.Env (Key × Key)) (hg : (getKey rkOf rootEnv (run rkOf rootEnv State.empty ops) k p).1 = .hit e) :
    computeL2 kdf (c1 k) (c2 k) (chainEnvOf e) p.l1 p.l2 = some (K2 kdf (c1 k) (c2 k) (k31 k) p.l1 p.l2) ∧
    steps (chainEnvOf e) p.l1 p.l2 ≤ 63 := by
  have hinv := inv_run rkOf rootEnv (GenuineChain kdf c1 c2 k31) RootOk hroot ops State.empty
    (inv_empty _ _) hops
  obtain ⟨hle, hgen⟩ := get_covers rkOf rootEnv (GenuineChain kdf c1 c2 k31) RootOk hroot _ k p hp hinv e hg
  have hcov : p.l1 < (chainEnvOf e).l1 ∨ (p.l1 = (chainEnvOf e).l1 ∧ p.l2 ≤ (chainEnvOf e).l2) := by
    unfold Pos.le at hle; simp only [chainEnvOf]; omega
  refine ⟨C02.computeL2_correct kdf (c1 k) (c2 k) (k31 k) _ hgen p.l1 p.l2 hp.1 hp.2 hcov, ?_⟩
  apply C02.steps_le
  have hinv2 := inv_step rkOf rootEnv (GenuineChain kdf c1 c2 k31) RootOk hroot _ (.get k p) hinv trivial
  have hs : (step rkOf rootEnv (run rkOf rootEnv State.empty ops) (.get k p)).seeds k = some e :=
    get_stores rkOf rootEnv _ k p e hg
  have hin := (hinv2.1 k e hs).2
  unfold rejects
  unfold Pos.InRange at hin hp
  unfold Pos.le at hle
  simp only [chainEnvOf]
  omega
end

end DpapiNg.C10
