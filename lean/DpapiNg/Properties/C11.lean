/-
  C11 — MS-GKDI structures and GetKey stubs have exactly the specified byte layout.
  Property theorems; the slice lemmas and the long unfoldings are in Proofs/GkdiRt.lean.
-/
import DpapiNg.Proofs.GkdiRt
namespace DpapiNg.C11
open DpapiNg DpapiNg.Gkdi

/-- fixed-width big-endian integers keep their leading zero bytes: width exactly `k`, value recovered -/
theorem fixedWidth_roundtrip (n k : Nat) (h : n < 256 ^ k) :
    Py.toBytesBE (n : Int) k = .ok (Py.toBE n k) ∧ (Py.toBE n k).length = k ∧ Py.fromBE (Py.toBE n k) = n :=
  ⟨Py.toBytesBE_ok n k h, Py.toBE_length n k, Py.fromBE_toBE n k h⟩

theorem kdfParams_roundtrip (name : Bytes) (hv : utf16Valid name = true) (hl : name.length + 2 < 2 ^ 32) :
    (kdfParamsPack name).bind kdfParamsUnpack = .ok name := kdfParams_rt name hv hl

theorem ffcParams_roundtrip (p : FfcParams) (hk : 12 + p.keyLength + p.keyLength < 2 ^ 32)
    (hf : p.fieldOrder < 256 ^ p.keyLength) (hg : p.generator < 256 ^ p.keyLength) :
    (ffcParamsPack p).bind ffcParamsUnpack = .ok p := ffcParams_rt p hk hf hg

theorem ffcKey_roundtrip (k : FfcKey) (hk : k.keyLength < 2 ^ 32) (hf : k.fieldOrder < 256 ^ k.keyLength)
    (hg : k.generator < 256 ^ k.keyLength) (hp : k.publicKey < 256 ^ k.keyLength) :
    (ffcKeyPack k).bind ffcKeyUnpack = .ok k := ffcKey_rt k hk hf hg hp

theorem ecdhKey_roundtrip (k : EcdhKey) (hk : k.keyLength < 2 ^ 32) (hx : k.x < 256 ^ k.keyLength) (hy : k.y < 256 ^ k.keyLength) :
    (ecdhKeyPack k).bind ecdhKeyUnpack = .ok k := ecdhKey_rt k hk hx hy

theorem keyId_roundtrip (k : KeyId) (h : k.WF) : (keyIdPack k).bind keyIdUnpack = .ok k := keyId_rt k h

theorem envelope_roundtrip (e : Envelope) (h : e.WF) : (envelopePack e).bind envelopeUnpack = .ok e := envelope_rt e h

theorem getKey_roundtrip (g : GetKey) (h : g.WF) : (getKeyPack g).bind getKeyUnpack = .ok g := getKey_rt g h

/-- The request stub is the NDR64 layout for every SD length and either pointer form: the 32-bit
    count padded to 8, the 64-bit conformance, the bytes, zero padding to the next 8-byte boundary
    (the [unique] pointer is 8-aligned from the start of the stub), the referent (+ GUID), three LONGs. -/
theorem getKey_layout (g : GetKey) (h : g.WF) :
    ∃ pad, getKeyPack g = .ok (Py.toLE g.targetSd.length 8 ++ Py.toLE g.targetSd.length 8 ++ g.targetSd ++ pad
        ++ rkPart g.rootKeyId ++ idsPart g) ∧
      pad = Py.zeros pad.length ∧ pad.length < 8 ∧ (16 + g.targetSd.length + pad.length) % 8 = 0 ∧
      (Py.toLE g.targetSd.length 8).take 4 = Py.toLE g.targetSd.length 4 ∧ (Py.toLE g.targetSd.length 8).drop 4 = Py.zeros 4 := by
  refine ⟨Py.zeros (Py.negMod g.targetSd.length 8), getKeyPack_eq g h, by simp, ?_, ?_, ?_, ?_⟩
  · simp only [Py.zeros_length]; exact Py.negMod_lt _ 8 (by omega)
  · simp only [Py.zeros_length]
    have := Py.negMod_aligned g.targetSd.length 8 (by omega)
    omega
  · rw [toLE_add g.targetSd.length 4 4]; simp
  · rw [toLE_add g.targetSd.length 4 4]
    have hz : g.targetSd.length / 256 ^ 4 = 0 := by
      have : (256 : Nat) ^ 4 = 4294967296 := by decide
      rw [this]; exact Nat.div_eq_of_lt (by have := h.sd; omega)
    simp [hz]; decide

/-- The response decoder extracts the envelope from the NDR64 reply for every envelope length
    (whatever the referent id and whatever alignment padding follows the bytes). -/
theorem unpackResponse_ndr64 (e : Envelope) (h : e.WF) (ref mc pad : Bytes) (href : ref.length = 8) (hmc : mc.length = 8) :
    ∃ b, envelopePack e = .ok b ∧
      (b.length < 2 ^ 32 →
        getKeyUnpackResponse (Py.toLE b.length 4 ++ Py.zeros 4 ++ ref ++ mc ++ b ++ pad ++ Py.toLE 0 4) = .ok e) := by
  obtain ⟨b, hb⟩ := envelope_pack_ok e h
  refine ⟨b, hb, fun hlen => ?_⟩
  have hrt := envelope_rt e h
  rw [hb] at hrt
  exact unpackResponse_ok b ref mc pad e hlen href hmc hrt

/-- A non-zero HRESULT is an error, never an envelope. -/
theorem unpackResponse_hresult (body : Bytes) (hr : Nat) (h0 : hr ≠ 0) (h : hr < 2 ^ 32) :
    getKeyUnpackResponse (body ++ Py.toLE hr 4) = .error .valueError := unpackResponse_err body hr h0 h

-- non-vacuity: concrete well-formed values
example : (⟨1, 2, 361, 17, 13, List.replicate 16 7, u16 "SP800_108_CTR_HMAC", [1, 2, 3], u16 "DH", [], 512, 2048,
    u16 "domain.test", u16 "", List.replicate 64 1, []⟩ : Envelope).WF := by
  constructor <;> first | decide +kernel | (constructor <;> decide +kernel)
example : (⟨[1, 2, 3, 4, 5], some (List.replicate 16 9), -1, -1, -1⟩ : GetKey).WF := by
  constructor <;> first | decide | (intro id h; cases h; decide) | omega

end DpapiNg.C11
