/-
  C12 — DCE/RPC and endpoint-mapper wire codecs are inverse; decoders terminate.
-/
import DpapiNg.Model.Rpc
import DpapiNg.Model.Epm
import DpapiNg.Proofs.Slices
import DpapiNg.Properties.C18
import DpapiNg.Model.RpcClient
namespace DpapiNg.C12
open DpapiNg DpapiNg.Rpc DpapiNg.Epm

theorem le_ok (n k : Nat) (h : n < 256 ^ k) : le n k = .ok (Py.toLE n k) := Py.toBytesLE_ok n k h

theorem toLE1 (n : Nat) (h : n < 256) : Py.toLE n 1 = [n] := by
  simp [Py.toLE]; omega

structure _root_.DpapiNg.Rpc.Header.WF (h : Header) : Prop where
  version : h.version < 256
  versionMinor : h.versionMinor < 256
  packetType : validPacketType h.packetType = true
  packetFlags : h.packetFlags < 256
  byteOrder : h.dataRep.byteOrder ≤ 1
  character : h.dataRep.character ≤ 1
  floatingPoint : h.dataRep.floatingPoint ≤ 3
  fragLen : h.fragLen < 65536
  authLen : h.authLen < 65536
  callId : h.callId < 4294967296

theorem dataRep_rt (d : DataRep) (h1 : d.byteOrder ≤ 1) (h2 : d.character ≤ 1) (h3 : d.floatingPoint ≤ 3) (rest : Bytes) :
    ∃ b, dataRepPack d = .ok b ∧ b.length = 4 ∧ dataRepUnpack (b ++ rest) = .ok d := by
  obtain ⟨bo, ch, fp⟩ := d
  simp only at h1 h2 h3
  have hor : bo * 16 ||| ch = bo * 16 + ch := by
    have : bo = 0 ∨ bo = 1 := by omega
    have : ch = 0 ∨ ch = 1 := by omega
    rcases ‹bo = 0 ∨ bo = 1› with rfl | rfl <;> rcases ‹ch = 0 ∨ ch = 1› with rfl | rfl <;> decide
  unfold dataRepPack
  simp only [hor]
  rw [le_ok _ 1 (by omega), le_ok _ 1 (by omega)]
  simp only [bind, Except.bind, pure, Except.pure, toLE1 _ (show bo * 16 + ch < 256 by omega), toLE1 _ (show fp < 256 by omega)]
  refine ⟨_, rfl, by simp, ?_⟩
  unfold dataRepUnpack at_ Py.index
  simp only [List.cons_append, List.nil_append, List.getElem?_cons_zero, List.getElem?_cons_succ, bind, Except.bind]
  have a1 : ¬ (bo * 16 + ch) / 16 > 1 := by omega
  have a2 : ¬ (bo * 16 + ch) % 16 > 1 := by omega
  have a3 : ¬ fp > 3 := by omega
  simp only [a1, a2, a3, if_false, pure, Except.pure]
  have e1 : (bo * 16 + ch) / 16 = bo := by omega
  have e2 : (bo * 16 + ch) % 16 = ch := by omega
  simp [e1, e2]

/-- the 16-byte PDU header: decode(encode h) = h, for every well-formed header -/
theorem header_roundtrip (h : Header) (wf : h.WF) (rest : Bytes) :
    ∃ b, headerPack h = .ok b ∧ b.length = 16 ∧ headerUnpack (b ++ rest) = .ok h := by
  obtain ⟨w1, w2, w3, w4, w5, w6, w7, w8, w9, w10⟩ := wf
  obtain ⟨dr, hdr, hdl, hdu⟩ := dataRep_rt h.dataRep w5 w6 w7 []
  have hpt : h.packetType < 256 := by
    unfold validPacketType at w3; simp at w3; omega
  unfold headerPack
  rw [le_ok _ 1 (by omega), le_ok _ 1 (by omega), le_ok _ 1 (by omega), le_ok _ 1 (by omega), hdr,
    le_ok _ 2 (by omega), le_ok _ 2 (by omega), le_ok _ 4 (by omega)]
  simp only [bind, Except.bind, pure, Except.pure, toLE1 _ w1, toLE1 _ w2, toLE1 _ hpt, toLE1 _ w4]
  refine ⟨_, rfl, by simp [hdl], ?_⟩
  generalize hF : Py.toLE h.fragLen 2 = F
  generalize hA : Py.toLE h.authLen 2 = A
  generalize hC : Py.toLE h.callId 4 = Cc
  have lF : F.length = 2 := by rw [← hF]; simp
  have lA : A.length = 2 := by rw [← hA]; simp
  have lC : Cc.length = 4 := by rw [← hC]; simp
  have vF : Py.fromLE F = h.fragLen := by rw [← hF]; exact Py.fromLE_toLE _ 2 (by omega)
  have vA : Py.fromLE A = h.authLen := by rw [← hA]; exact Py.fromLE_toLE _ 2 (by omega)
  have vC : Py.fromLE Cc = h.callId := by rw [← hC]; exact Py.fromLE_toLE _ 4 (by omega)
  unfold headerUnpack at_ Py.index
  simp only [List.append_assoc, List.cons_append, List.nil_append, List.getElem?_cons_zero, List.getElem?_cons_succ, bind, Except.bind, w3,
    not_true_eq_false, if_false]
  have s1 : Py.sliceN (h.version :: h.versionMinor :: h.packetType :: h.packetFlags :: (dr ++ (F ++ (A ++ (Cc ++ rest))))) 4 8 = dr := by
    slices0 [hdl]
  have s2 : Py.sliceN (h.version :: h.versionMinor :: h.packetType :: h.packetFlags :: (dr ++ (F ++ (A ++ (Cc ++ rest))))) 8 10 = F := by
    slices0 [hdl, lF]
  have s3 : Py.sliceN (h.version :: h.versionMinor :: h.packetType :: h.packetFlags :: (dr ++ (F ++ (A ++ (Cc ++ rest))))) 10 12 = A := by
    slices0 [hdl, lF, lA]
  have s4 : Py.sliceN (h.version :: h.versionMinor :: h.packetType :: h.packetFlags :: (dr ++ (F ++ (A ++ (Cc ++ rest))))) 12 16 = Cc := by
    slices0 [hdl, lF, lA, lC]
  simp only [s1, s2, s3, s4, vF, vA, vC]
  simp only [List.append_nil] at hdu
  simp [hdu, pure, Except.pure]

/-- security trailer: decode(encode t) = t (the auth value is everything after the 8-byte header) -/
theorem secTrailer_roundtrip (t : SecTrailer) (h1 : validProvider t.type = true) (h2 : validLevel t.level = true)
    (h3 : t.padLength < 256) (h4 : t.contextId < 4294967296) :
    ∃ b, secTrailerPack t = .ok b ∧ b.length = 8 + t.authValue.length ∧ secTrailerUnpack b = .ok t := by
  have ht : t.type < 256 := by unfold validProvider at h1; simp at h1; omega
  have hl : t.level < 256 := by unfold validLevel at h2; simp at h2; omega
  unfold secTrailerPack
  rw [le_ok _ 1 (by omega), le_ok _ 1 (by omega), le_ok _ 1 (by omega), le_ok _ 4 (by omega)]
  simp only [bind, Except.bind, pure, Except.pure, toLE1 _ ht, toLE1 _ hl, toLE1 _ h3]
  refine ⟨_, rfl, by simp; omega, ?_⟩
  generalize hC : Py.toLE t.contextId 4 = Cc
  have lC : Cc.length = 4 := by rw [← hC]; simp
  have vC : Py.fromLE Cc = t.contextId := by rw [← hC]; exact Py.fromLE_toLE _ 4 (by omega)
  unfold secTrailerUnpack at_ Py.index
  simp only [List.append_assoc, List.cons_append, List.nil_append, List.getElem?_cons_zero, List.getElem?_cons_succ, bind, Except.bind, h1, h2,
    not_true_eq_false, if_false]
  have s1 : Py.sliceN (t.type :: t.level :: t.padLength :: 0 :: (Cc ++ t.authValue)) 4 8 = Cc := by slices0 [lC]
  have s2 : (t.type :: t.level :: t.padLength :: 0 :: (Cc ++ t.authValue)).drop 8 = t.authValue := by slices0 [lC]
  simp [s1, s2, vC, pure, Except.pure]

/-- syntax identifiers (UUID + version) -/
theorem syntax_roundtrip (s : SyntaxId) (h1 : s.uuid.length = 16) (h2 : s.version < 65536) (h3 : s.versionMinor < 65536) (rest : Bytes) :
    ∃ b, syntaxPack s = .ok b ∧ b.length = 20 ∧ syntaxUnpack (b ++ rest) = .ok s := by
  unfold syntaxPack
  rw [le_ok _ 2 (by omega), le_ok _ 2 (by omega)]
  simp only [bind, Except.bind, pure, Except.pure]
  refine ⟨_, rfl, by simp [h1], ?_⟩
  generalize hA : Py.toLE s.version 2 = A
  generalize hB : Py.toLE s.versionMinor 2 = B
  have lA : A.length = 2 := by rw [← hA]; simp
  have lB : B.length = 2 := by rw [← hB]; simp
  have vA : Py.fromLE A = s.version := by rw [← hA]; exact Py.fromLE_toLE _ 2 (by omega)
  have vB : Py.fromLE B = s.versionMinor := by rw [← hB]; exact Py.fromLE_toLE _ 2 (by omega)
  unfold syntaxUnpack
  simp only [List.append_assoc]
  have s1 : Py.sliceN (s.uuid ++ (A ++ (B ++ rest))) 0 16 = s.uuid := by slices0 [h1]
  have s2 : Py.sliceN (s.uuid ++ (A ++ (B ++ rest))) 16 18 = A := by slices0 [h1, lA]
  have s3 : Py.sliceN (s.uuid ++ (A ++ (B ++ rest))) 18 20 = B := by slices0 [h1, lA, lB]
  simp [s1, s2, s3, uuidOf, h1, vA, vB, bind, Except.bind, pure, Except.pure]

/-- The verification-trailer command loop terminates: its result does not depend on the fuel once the
    fuel exceeds |view|/4 (every iteration consumes at least the 4-byte command header). -/
theorem vtCommands_bounded (v : Bytes) (k : Nat) :
    vtCommands (v.length / 4 + 1 + k) v = vtCommands (v.length / 4 + 1) v := by
  -- generalise the fuel: any fuel f with 4·f > |v| gives the same answer as f + k
  have key : ∀ (f : Nat) (v : Bytes), v.length < 4 * f → ∀ k, vtCommands (f + k) v = vtCommands f v := by
    intro f
    induction f with
    | zero => intro v hv; omega
    | succ f ih =>
      intro v hv k
      have e : f + 1 + k = (f + k) + 1 := by omega
      rw [e]
      simp only [vtCommands]
      split
      · rfl
      · rename_i hlen
        simp only [bind, Except.bind]
        split
        · rfl
        · rename_i cn hcn
          obtain ⟨c, n⟩ := cn
          simp only
          split
          · rfl
          · have hv' : (v.drop (4 + n)).length < 4 * f := by simp only [List.length_drop]; omega
            rw [ih _ hv' k]
  exact key _ v (by omega) k

/-- decoding the tower list of an ept_map reply terminates within |reply|/14 + 1 iterations whatever
    count is announced (restated from C18) -/
theorem towersUnpack_bounded (n : Nat) (v : Bytes) (hn : v.length / 14 + 1 ≤ n) :
    towersUnpack n v = towersUnpack (v.length / 14 + 1) v := C18.towersUnpack_bounded n v hn

/-- NDR64 tower padding used by EptMap / EptMapResult on both sides -/
theorem tower_padding_aligned (len : Nat) : (12 + len + Py.negMod (len + 4) 8) % 8 = 0 := (C18.tower_padding_aligned len).1

/-- the secondary-address padding of bind_ack: the result list is 4-aligned from the PDU start for every address length -/
theorem bindAck_padding_aligned (n : Nat) : (26 + n + Py.negMod (2 + n) 4) % 4 = 0 := by
  unfold Py.negMod; omega

-- non-vacuity: the header the client itself builds is well-formed
example : (DpapiNg.RpcClient.mkHeader 0 16 1 0).WF := by
  constructor <;> decide

end DpapiNg.C12
