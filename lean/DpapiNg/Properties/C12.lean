/-
  C12 — DCE/RPC and endpoint-mapper wire codecs are inverse; decoders terminate.
-/
import DpapiNg.Model.Rpc
import DpapiNg.Model.Epm
import DpapiNg.Proofs.Slices
import DpapiNg.Properties.C18
import DpapiNg.Model.RpcClient
namespace DpapiNg.C12
open DpapiNg DpapiNg.Rpc DpapiNg.Epm

theorem le_ok (n k : Nat) (h : n < 256 ^ k) : le n k = .ok (Py.toLE n k) := Py.toBytesLE_ok n k h

theorem toLE1 (n : Nat) (h : n < 256) : Py.toLE n 1 = [n] := by
  simp [Py.toLE]; omega

structure _root_.DpapiNg.Rpc.Header.WF (h : Header) : Prop where
  version : h.version < 256
  versionMinor : h.versionMinor < 256
  packetType : validPacketType h.packetType = true
  packetFlags : h.packetFlags < 256
  byteOrder : h.dataRep.byteOrder ≤ 1
  character : h.dataRep.character ≤ 1
  floatingPoint : h.dataRep.floatingPoint ≤ 3
  fragLen : h.fragLen < 65536
  authLen : h.authLen < 65536
  callId : h.callId < 4294967296

theorem dataRep_rt (d : DataRep) (h1 : d.byteOrder ≤ 1) (h2 : d.character ≤ 1) (h3 : d.floatingPoint ≤ 3) (rest : Bytes) :
    ∃ b, dataRepPack d = .ok b ∧ b.length = 4 ∧ dataRepUnpack (b ++ rest) = .ok d := by
  obtain ⟨bo, ch, fp⟩ := d
  simp only at h1 h2 h3
  have hor : bo * 16 ||| ch = bo * 16 + ch := by
    have : bo = 0 ∨ bo = 1 := by omega
    have : ch = 0 ∨ ch = 1 := by omega
    rcases ‹bo = 0 ∨ bo = 1› with rfl | rfl <;> rcases ‹ch = 0 ∨ ch = 1› with rfl | rfl <;> decide
  unfold dataRepPack
  simp only [hor]
  rw [le_ok _ 1 (by omega), le_ok _ 1 (by omega)]
  simp only [bind, Except.bind, pure, Except.pure, toLE1 _ (show bo * 16 + ch < 256 by omega), toLE1 _ (show fp < 256 by omega)]
  refine ⟨_, rfl, by simp, ?_⟩
  unfold dataRepUnpack at_ Py.index
  simp only [List.cons_append, List.nil_append, List.getElem?_cons_zero, List.getElem?_cons_succ, bind, Except.bind]
  have a1 : ¬ (bo * 16 + ch) / 16 > 1 := by omega
  have a2 : ¬ (bo * 16 + ch) % 16 > 1 := by omega
  have a3 : ¬ fp > 3 := by omega
  simp only [a1, a2, a3, if_false, pure, Except.pure]
  have e1 : (bo * 16 + ch) / 16 = bo := by omega
  have e2 : (bo * 16 + ch) % 16 = ch := by omega
  simp [e1, e2]

/-- the 16-byte PDU header: decode(encode h) = h, for every well-formed header -/
theorem header_roundtrip (h : Header) (wf : h.WF) (rest : Bytes) :
    ∃ b, headerPack h = .ok b ∧ b.length = 16 ∧ headerUnpack (b ++ rest) = .ok h := by
  obtain ⟨w1, w2, w3, w4, w5, w6, w7, w8, w9, w10⟩ := wf
  obtain ⟨dr, hdr, hdl, hdu⟩ := dataRep_rt h.dataRep w5 w6 w7 []
  have hpt : h.packetType < 256 := by
    unfold validPacketType at w3; simp at w3; omega
  unfold headerPack
  rw [le_ok _ 1 (by omega), le_ok _ 1 (by omega), le_ok _ 1 (by omega), le_ok _ 1 (by omega), hdr,
    le_ok _ 2 (by omega), le_ok _ 2 (by omega), le_ok _ 4 (by omega)]
  simp only [bind, Except.bind, pure, Except.pure, toLE1 _ w1, toLE1 _ w2, toLE1 _ hpt, toLE1 _ w4]
  refine ⟨_, rfl, by simp [hdl], ?_⟩
  generalize hF : Py.toLE h.fragLen 2 = F
  generalize hA : Py.toLE h.authLen 2 = A
  generalize hC : Py.toLE h.callId 4 = Cc
  have lF : F.length = 2 := by rw [← hF]; simp
  have lA : A.length = 2 := by rw [← hA]; simp
  have lC : Cc.length = 4 := by rw [← hC]; simp
  have vF : Py.fromLE F = h.fragLen := by rw [← hF]; exact Py.fromLE_toLE _ 2 (by omega)
  have vA : Py.fromLE A = h.authLen := by rw [← hA]; exact Py.fromLE_toLE _ 2 (by omega)
  have vC : Py.fromLE Cc = h.callId := by rw [← hC]; exact Py.fromLE_toLE _ 4 (by omega)
  unfold headerUnpack at_ Py.index
  simp only [List.append_assoc, List.cons_append, List.nil_append, List.getElem?_cons_zero, List.getElem?_cons_succ, bind, Except.bind, w3,
    not_true_eq_false, if_false]
  have s1 : Py.sliceN (h.version :: h.versionMinor :: h.packetType :: h.packetFlags :: (dr ++ (F ++ (A ++ (Cc ++ rest))))) 4 8 = dr := by
    slices0 [hdl]
  have s2 : Py.sliceN (h.version :: h.versionMinor :: h.packetType :: h.packetFlags :: (dr ++ (F ++ (A ++ (Cc ++ rest))))) 8 10 = F := by
    slices0 [hdl, lF]
  have s3 : Py.sliceN (h.version :: h.versionMinor :: h.packetType :: h.packetFlags :: (dr ++ (F ++ (A ++ (Cc ++ rest))))) 10 12 = A := by
    slices0 [hdl, lF, lA]
  have s4 : Py.sliceN (h.version :: h.versionMinor :: h.packetType :: h.packetFlags :: (dr ++ (F ++ (A ++ (Cc ++ rest))))) 12 16 = Cc := by
    slices0 [hdl, lF, lA, lC]
  simp only [s1, s2, s3, s4, vF, vA, vC]
  simp only [List.append_nil] at hdu
  simp [hdu, pure, Except.pure]

/-- security trailer: decode(encode t) = t (the auth value is everything after the 8-byte header) -/
theorem secTrailer_roundtrip (t : SecTrailer) (h1 : validProvider t.type = true) (h2 : validLevel t.level = true)
    (h3 : t.padLength < 256) (h4 : t.contextId < 4294967296) :
    ∃ b, secTrailerPack t = .ok b ∧ b.length = 8 + t.authValue.length ∧ secTrailerUnpack b = .ok t := by
  have ht : t.type < 256 := by unfold validProvider at h1; simp at h1; omega
  have hl : t.level < 256 := by unfold validLevel at h2; simp at h2; omega
  unfold secTrailerPack
  rw [le_ok _ 1 (by omega), le_ok _ 1 (by omega), le_ok _ 1 (by omega), le_ok _ 4 (by omega)]
  simp only [bind, Except.bind, pure, Except.pure, toLE1 _ ht, toLE1 _ hl, toLE1 _ h3]
  refine ⟨_, rfl, by simp; omega, ?_⟩
  generalize hC : Py.toLE t.contextId 4 = Cc
  have lC : Cc.length = 4 := by rw [← hC]; simp
  have vC : Py.fromLE Cc = t.contextId := by rw [← hC]; exact Py.fromLE_toLE _ 4 (by omega)
  unfold secTrailerUnpack at_ Py.index
  simp only [List.append_assoc, List.cons_append, List.nil_append, List.getElem?_cons_zero, List.getElem?_cons_succ, bind, Except.bind, h1, h2,
    not_true_eq_false, if_false]
  have s1 : Py.sliceN (t.type :: t.level :: t.padLength :: 0 :: (Cc ++ t.authValue)) 4 8 = Cc := by slices0 [lC]
  have s2 : (t.type :: t.level :: t.padLength :: 0 :: (Cc ++ t.authValue)).drop 8 = t.authValue := by slices0 [lC]
  simp [s1, s2, vC, pure, Except.pure]

/-- syntax identifiers (UUID + version) -/
theorem syntax_roundtrip (s : SyntaxId) (h1 : s.uuid.length = 16) (h2 : s.version < 65536) (h3 : s.versionMinor < 65536) (rest : Bytes) :
    ∃ b, syntaxPack s = .ok b ∧ b.length = 20 ∧ syntaxUnpack (b ++ rest) = .ok s := by
  unfold syntaxPack
  rw [le_ok _ 2 (by omega), le_ok _ 2 (by omega)]
  simp only [bind, Except.bind, pure, Except.pure]
  refine ⟨_, rfl, by simp [h1], ?_⟩
  generalize hA : Py.toLE s.version 2 = A
  generalize hB : Py.toLE s.versionMinor 2 = B
  have lA : A.length = 2 := by rw [← hA]; simp
  have lB : B.length = 2 := by rw [← hB]; simp
  have vA : Py.fromLE A = s.version := by rw [← hA]; exact Py.fromLE_toLE _ 2 (by omega)
  have vB : Py.fromLE B = s.versionMinor := by rw [← hB]; exact Py.fromLE_toLE _ 2 (by omega)
  unfold syntaxUnpack
  simp only [List.append_assoc]
  have s1 : Py.sliceN (s.uuid ++ (A ++ (B ++ rest))) 0 16 = s.uuid := by slices0 [h1]
  have s2 : Py.sliceN (s.uuid ++ (A ++ (B ++ rest))) 16 18 = A := by slices0 [h1, lA]
  have s3 : Py.sliceN (s.uuid ++ (A ++ (B ++ rest))) 18 20 = B := by slices0 [h1, lA, lB]
  simp [s1, s2, s3, uuidOf, h1, vA, vB, bind, Except.bind, pure, Except.pure]

/-- The verification-trailer command loop terminates: its result does not depend on the fuel once the
    fuel exceeds |view|/4 (every iteration consumes at least the 4-byte command header). -/
theorem vtCommands_bounded (v : Bytes) (k : Nat) :
    vtCommands (v.length / 4 + 1 + k) v = vtCommands (v.length / 4 + 1) v := by
  -- generalise the fuel: any fuel f with 4·f > |v| gives the same answer as f + k
  have key : ∀ (f : Nat) (v : Bytes), v.length < 4 * f → ∀ k, vtCommands (f + k) v = vtCommands f v := by
    intro f
    induction f with
    | zero => intro v hv; omega
    | succ f ih =>
      intro v hv k
      have e : f + 1 + k = (f + k) + 1 := by omega
      rw [e]
      simp only [vtCommands]
      split
      · rfl
      · rename_i hlen
        simp only [bind, Except.bind]
        split
        · rfl
        · rename_i cn hcn
          obtain ⟨c, n⟩ := cn
          simp only
          split
          · rfl
          · have hv' : (v.drop (4 + n)).length < 4 * f := by simp only [List.length_drop]; omega
            rw [ih _ hv' k]
  exact key _ v (by omega) k

/-- decoding the tower list of an ept_map reply terminates within |reply|/14 + 1 iterations whatever
    count is announced (restated from C18) -/
theorem towersUnpack_bounded (n : Nat) (v : Bytes) (hn : v.length / 14 + 1 ≤ n) :
    towersUnpack n v = towersUnpack (v.length / 14 + 1) v := C18.towersUnpack_bounded n v hn

/-- NDR64 tower padding used by EptMap / EptMapResult on both sides -/
theorem tower_padding_aligned (len : Nat) : (12 + len + Py.negMod (len + 4) 8) % 8 = 0 := (C18.tower_padding_aligned len).1

/-- the secondary-address padding of bind_ack: the result list is 4-aligned from the PDU start for every address length -/
theorem bindAck_padding_aligned (n : Nat) : (26 + n + Py.negMod (2 + n) 4) % 4 = 0 := by
  unfold Py.negMod; omega

-- non-vacuity: the header the client itself builds is well-formed
example : (DpapiNg.RpcClient.mkHeader 0 16 1 0).WF := by
  constructor <;> decide

end DpapiNg.C12

/-! ## whole-PDU round trips (frame = header ‖ body ‖ optional security trailer) and verification trailers -/
namespace DpapiNg.C12
open DpapiNg DpapiNg.Rpc

theorem sliceFrom_neg_suffix {α} (a b : List α) (n : Nat) (hn : b.length = n) (hpos : 0 < n) :
    Py.sliceFrom (a ++ b) (-(n : Int)) = b := by
  unfold Py.sliceFrom Py.clampIdx
  have h0 : (-(n : Int)) < 0 := by omega
  simp only [h0, if_true, List.length_append]
  have : (-(n : Int) + ((a.length + b.length : Nat) : Int)).toNat = a.length := by omega
  rw [this, List.drop_left]

theorem sliceTo_neg_suffix {α} (a b : List α) (n : Nat) (hn : b.length = n) (hpos : 0 < n) :
    Py.sliceTo (a ++ b) (-(n : Int)) = a := by
  unfold Py.sliceTo Py.clampIdx
  have h0 : (-(n : Int)) < 0 := by omega
  simp only [h0, if_true, List.length_append]
  have : (-(n : Int) + ((a.length + b.length : Nat) : Int)).toNat = a.length := by omega
  rw [this, List.take_left]

theorem sliceN_rest {α} (a x : List α) (i n : Nat) (hi : a.length = i) (hn : n = i + x.length) : Py.sliceN (a ++ x) i n = x := by
  unfold Py.sliceN
  have : (a ++ x).take n = a ++ x := List.take_of_length_le (by simp; omega)
  rw [this, ← hi, List.drop_left]

/-- the security trailer of a PDU, as far as the codec is concerned -/
def TrailerWF (t : Option SecTrailer) : Prop :=
  match t with
  | none => True
  | some t => validProvider t.type = true ∧ validLevel t.level = true ∧ t.padLength < 256 ∧ t.contextId < 4294967296 ∧ 0 < t.authValue.length

def authLenOf (t : Option SecTrailer) : Nat := match t with | none => 0 | some t => t.authValue.length

/-- the part of `PDU.unpack` common to all PDU types: header, body region, optional security trailer -/
theorem unpack_frame (h : Header) (wf : h.WF) (t : Option SecTrailer) (twf : TrailerWF t) (hb body : Bytes)
    (hh : headerPack h = .ok hb) (hal : h.authLen = authLenOf t) :
    ∃ tb, optTrailerPack t = .ok tb ∧ (h.fragLen = 16 + body.length + tb.length →
      pduUnpack (hb ++ body ++ tb) =
        (bodyUnpack h.packetType h.packetFlags body >>= fun b =>
          pure ⟨h, (match b with | .bindNak _ _ => none | _ => t), b⟩)) := by
  obtain ⟨hb', hp, hl, hu⟩ := header_roundtrip h wf (body ++ (match t with | none => [] | some _ => []))
  rw [hh] at hp; cases hp
  cases t with
  | none =>
    refine ⟨[], rfl, fun hf => ?_⟩
    obtain ⟨_, hp2, _, hu2⟩ := header_roundtrip h wf body
    rw [hh] at hp2; cases hp2
    unfold pduUnpack
    simp only [List.append_nil, hu2, bind, Except.bind]
    have hz : h.authLen = 0 := hal
    have s1 : Py.sliceN (hb ++ body) 16 h.fragLen = body := by
      simp only [List.length_nil, Nat.add_zero] at hf
      exact sliceN_rest hb body 16 _ hl hf
    simp only [hz, ne_eq, not_true_eq_false, if_false, s1, pure, Except.pure]
    cases bodyUnpack h.packetType h.packetFlags body <;> rfl
  | some tr =>
    obtain ⟨w1, w2, w3, w4, w5⟩ := twf
    obtain ⟨tb, htp, htl, htu⟩ := secTrailer_roundtrip tr w1 w2 w3 w4
    refine ⟨tb, htp, fun hf => ?_⟩
    obtain ⟨_, hp2, _, hu2⟩ := header_roundtrip h wf (body ++ tb)
    rw [hh] at hp2; cases hp2
    unfold pduUnpack
    rw [List.append_assoc, hu2]
    simp only [bind, Except.bind]
    have ha : h.authLen = tr.authValue.length := hal
    have hnz : h.authLen ≠ 0 := by omega
    have s1 : Py.sliceN (hb ++ (body ++ tb)) 16 h.fragLen = body ++ tb := by
      exact sliceN_rest hb (body ++ tb) 16 _ hl (by simp; omega)
    have hcast : ((h.authLen : Int) + 8) = ((tb.length : Nat) : Int) := by rw [htl, ha]; omega
    simp only [hnz, ne_eq, not_false_eq_true, if_true, s1, hcast]
    rw [sliceFrom_neg_suffix body tb tb.length rfl (by omega), sliceTo_neg_suffix body tb tb.length rfl (by omega), htu]
    simp only [pure, Except.pure]
    cases bodyUnpack h.packetType h.packetFlags body <;> rfl

/-- RESPONSE PDUs (the carrier of the GetKey reply): decode(encode p) = p, with or without a security trailer, any stub -/
theorem response_roundtrip (h : Header) (wf : h.WF) (t : Option SecTrailer) (twf : TrailerWF t) (ah cid cc : Nat) (stub : Bytes)
    (hpt : h.packetType = 2) (hal : h.authLen = authLenOf t) (h1 : ah < 4294967296) (h2 : cid < 65536) (h3 : cc < 256) :
    ∃ b, pduPack ⟨h, t, .response ah cid cc stub⟩ = .ok b ∧
      (h.fragLen = b.length → pduUnpack b = .ok ⟨h, t, .response ah cid cc stub⟩) := by
  obtain ⟨hb, hh, hl, _⟩ := header_roundtrip h wf []
  obtain ⟨tb, htb, hframe⟩ := unpack_frame h wf t twf hb (Py.toLE ah 4 ++ Py.toLE cid 2 ++ [cc] ++ [0] ++ stub) hh hal
  unfold pduPack
  simp only [hh, bind, Except.bind, le_ok _ 4 h1, le_ok _ 2 h2, le_ok _ 1 (show cc < 256 ^ 1 by omega), toLE1 _ h3, htb, pure, Except.pure]
  refine ⟨_, rfl, fun hf => ?_⟩
  have hf' : h.fragLen = 16 + (Py.toLE ah 4 ++ Py.toLE cid 2 ++ [cc] ++ [0] ++ stub).length + tb.length := by
    rw [hf]; simp [hl]; omega
  have e := hframe hf'
  simp only [List.append_assoc] at e ⊢
  rw [e, hpt]
  generalize hA : Py.toLE ah 4 = A
  generalize hB : Py.toLE cid 2 = B
  have lA : A.length = 4 := by rw [← hA]; simp
  have lB : B.length = 2 := by rw [← hB]; simp
  have vA : Py.fromLE A = ah := by rw [← hA]; exact Py.fromLE_toLE _ 4 (by omega)
  have vB : Py.fromLE B = cid := by rw [← hB]; exact Py.fromLE_toLE _ 2 (by omega)
  unfold bodyUnpack at_ Py.index
  have n1 : ¬ ((2 : Nat) = 11 ∨ (2 : Nat) = 14) := by decide
  have n2 : ¬ ((2 : Nat) = 12 ∨ (2 : Nat) = 15) := by decide
  have n3 : ¬ ((2 : Nat) = 13) := by decide
  have n4 : ¬ ((2 : Nat) = 0) := by decide
  simp only [n1, n2, n3, n4, if_false, if_true]
  have s1 : Py.sliceN (A ++ (B ++ (cc :: 0 :: stub))) 0 4 = A := by slices0 [lA]
  have s2 : Py.sliceN (A ++ (B ++ (cc :: 0 :: stub))) 4 6 = B := by slices0 [lA, lB]
  have s3 : (A ++ (B ++ (cc :: 0 :: stub)))[6]? = some cc := by
    rw [List.getElem?_append_right (by omega), List.getElem?_append_right (by omega)]; simp [lA, lB]
  have s4 : (A ++ (B ++ (cc :: 0 :: stub))).drop 8 = stub := by slices0 [lA, lB]
  simp only [List.cons_append, List.nil_append, s1, s2, s3, s4, vA, vB, bind, Except.bind, pure, Except.pure]

/-- REQUEST PDUs: decode(encode p) = p; the object UUID is present exactly when PFC_OBJECT_UUID (0x80) is set -/
theorem request_roundtrip (h : Header) (wf : h.WF) (t : Option SecTrailer) (twf : TrailerWF t) (ah cid op : Nat) (obj : Option Bytes) (stub : Bytes)
    (hpt : h.packetType = 0) (hal : h.authLen = authLenOf t) (h1 : ah < 4294967296) (h2 : cid < 65536) (h3 : op < 65536)
    (hobj : match obj with | some u => u.length = 16 ∧ h.packetFlags / 128 % 2 = 1 | none => h.packetFlags / 128 % 2 ≠ 1) :
    ∃ b, pduPack ⟨h, t, .request ah cid op obj stub⟩ = .ok b ∧
      (h.fragLen = b.length → pduUnpack b = .ok ⟨h, t, .request ah cid op obj stub⟩) := by
  obtain ⟨hb, hh, hl, _⟩ := header_roundtrip h wf []
  obtain ⟨tb, htb, hframe⟩ := unpack_frame h wf t twf hb (Py.toLE ah 4 ++ Py.toLE cid 2 ++ Py.toLE op 2 ++ obj.getD [] ++ stub) hh hal
  unfold pduPack
  simp only [hh, bind, Except.bind, le_ok _ 4 h1, le_ok _ 2 h2, le_ok _ 2 h3, htb, pure, Except.pure]
  refine ⟨_, rfl, fun hf => ?_⟩
  have hf' : h.fragLen = 16 + (Py.toLE ah 4 ++ Py.toLE cid 2 ++ Py.toLE op 2 ++ obj.getD [] ++ stub).length + tb.length := by
    rw [hf]; simp [hl]; omega
  have e := hframe hf'
  simp only [List.append_assoc] at e ⊢
  rw [e, hpt]
  generalize hA : Py.toLE ah 4 = A
  generalize hB : Py.toLE cid 2 = B
  generalize hC : Py.toLE op 2 = Cc
  have lA : A.length = 4 := by rw [← hA]; simp
  have lB : B.length = 2 := by rw [← hB]; simp
  have lC : Cc.length = 2 := by rw [← hC]; simp
  have vA : Py.fromLE A = ah := by rw [← hA]; exact Py.fromLE_toLE _ 4 (by omega)
  have vB : Py.fromLE B = cid := by rw [← hB]; exact Py.fromLE_toLE _ 2 (by omega)
  have vC : Py.fromLE Cc = op := by rw [← hC]; exact Py.fromLE_toLE _ 2 (by omega)
  unfold bodyUnpack
  have n1 : ¬ ((0 : Nat) = 11 ∨ (0 : Nat) = 14) := by decide
  have n2 : ¬ ((0 : Nat) = 12 ∨ (0 : Nat) = 15) := by decide
  have n3 : ¬ ((0 : Nat) = 13) := by decide
  simp only [n1, n2, n3, if_false, if_true]
  cases obj with
  | none =>
    have hfl : ¬ (h.packetFlags / 128 % 2 = 1) := hobj
    simp only [Option.getD, List.nil_append] at *
    have s1 : Py.sliceN (A ++ (B ++ (Cc ++ stub))) 0 4 = A := by slices0 [lA]
    have s2 : Py.sliceN (A ++ (B ++ (Cc ++ stub))) 4 6 = B := by slices0 [lA, lB]
    have s3 : Py.sliceN (A ++ (B ++ (Cc ++ stub))) 6 8 = Cc := by slices0 [lA, lB, lC]
    have s4 : (A ++ (B ++ (Cc ++ stub))).drop 8 = stub := by slices0 [lA, lB, lC]
    simp only [hfl, if_false, s1, s2, s3, s4, vA, vB, vC, bind, Except.bind, pure, Except.pure]
  | some u =>
    obtain ⟨hu, hfl⟩ := hobj
    simp only [Option.getD] at *
    have s1 : Py.sliceN (A ++ (B ++ (Cc ++ (u ++ stub)))) 0 4 = A := by slices0 [lA]
    have s2 : Py.sliceN (A ++ (B ++ (Cc ++ (u ++ stub)))) 4 6 = B := by slices0 [lA, lB]
    have s3 : Py.sliceN (A ++ (B ++ (Cc ++ (u ++ stub)))) 6 8 = Cc := by slices0 [lA, lB, lC]
    have s4 : (A ++ (B ++ (Cc ++ (u ++ stub)))).drop 8 = u ++ stub := by slices0 [lA, lB, lC]
    have s5 : Py.sliceN (u ++ stub) 0 16 = u := by slices0 [hu]
    have s6 : (u ++ stub).drop 16 = stub := by slices0 [hu]
    simp only [hfl, if_true, s1, s2, s3, s4, s5, s6, vA, vB, vC, uuidOf, hu, Except.map, bind, Except.bind, pure, Except.pure]

/-- FAULT PDUs -/
theorem fault_roundtrip (h : Header) (wf : h.WF) (t : Option SecTrailer) (twf : TrailerWF t) (ah cid cc status flags : Nat) (stub : Bytes)
    (hpt : h.packetType = 3) (hal : h.authLen = authLenOf t) (h1 : ah < 4294967296) (h2 : cid < 65536) (h3 : cc < 256)
    (h4 : status < 4294967296) (h5 : flags < 256) :
    ∃ b, pduPack ⟨h, t, .fault ah cid cc status flags stub⟩ = .ok b ∧
      (h.fragLen = b.length → pduUnpack b = .ok ⟨h, t, .fault ah cid cc status flags stub⟩) := by
  obtain ⟨hb, hh, hl, _⟩ := header_roundtrip h wf []
  obtain ⟨tb, htb, hframe⟩ := unpack_frame h wf t twf hb (Py.toLE ah 4 ++ Py.toLE cid 2 ++ [cc] ++ [flags] ++ Py.toLE status 4 ++ [0, 0, 0, 0] ++ stub) hh hal
  unfold pduPack
  simp only [hh, bind, Except.bind, le_ok _ 4 h1, le_ok _ 2 h2, le_ok _ 1 (show cc < 256 ^ 1 by omega), le_ok _ 1 (show flags < 256 ^ 1 by omega),
    le_ok _ 4 h4, toLE1 _ h3, toLE1 _ h5, htb, pure, Except.pure]
  refine ⟨_, rfl, fun hf => ?_⟩
  have hf' : h.fragLen = 16 + (Py.toLE ah 4 ++ Py.toLE cid 2 ++ [cc] ++ [flags] ++ Py.toLE status 4 ++ [0, 0, 0, 0] ++ stub).length + tb.length := by
    rw [hf]; simp [hl]; omega
  have e := hframe hf'
  simp only [List.append_assoc] at e ⊢
  rw [e, hpt]
  generalize hA : Py.toLE ah 4 = A
  generalize hB : Py.toLE cid 2 = B
  generalize hS : Py.toLE status 4 = S
  have lA : A.length = 4 := by rw [← hA]; simp
  have lB : B.length = 2 := by rw [← hB]; simp
  have lS : S.length = 4 := by rw [← hS]; simp
  have vA : Py.fromLE A = ah := by rw [← hA]; exact Py.fromLE_toLE _ 4 (by omega)
  have vB : Py.fromLE B = cid := by rw [← hB]; exact Py.fromLE_toLE _ 2 (by omega)
  have vS : Py.fromLE S = status := by rw [← hS]; exact Py.fromLE_toLE _ 4 (by omega)
  unfold bodyUnpack at_ Py.index
  have n1 : ¬ ((3 : Nat) = 11 ∨ (3 : Nat) = 14) := by decide
  have n2 : ¬ ((3 : Nat) = 12 ∨ (3 : Nat) = 15) := by decide
  have n3 : ¬ ((3 : Nat) = 13) := by decide
  have n4 : ¬ ((3 : Nat) = 0) := by decide
  have n5 : ¬ ((3 : Nat) = 2) := by decide
  simp only [n1, n2, n3, n4, n5, if_false, if_true]
  have s1 : Py.sliceN (A ++ (B ++ (cc :: flags :: (S ++ (0 :: 0 :: 0 :: 0 :: stub))))) 0 4 = A := by slices0 [lA]
  have s2 : Py.sliceN (A ++ (B ++ (cc :: flags :: (S ++ (0 :: 0 :: 0 :: 0 :: stub))))) 4 6 = B := by slices0 [lA, lB]
  have s3 : (A ++ (B ++ (cc :: flags :: (S ++ (0 :: 0 :: 0 :: 0 :: stub)))))[6]? = some cc := by
    rw [List.getElem?_append_right (by omega), List.getElem?_append_right (by omega)]; simp [lA, lB]
  have s3' : (A ++ (B ++ (cc :: flags :: (S ++ (0 :: 0 :: 0 :: 0 :: stub)))))[7]? = some flags := by
    rw [List.getElem?_append_right (by omega), List.getElem?_append_right (by omega)]; simp [lA, lB]
  have s4 : Py.sliceN (A ++ (B ++ (cc :: flags :: (S ++ (0 :: 0 :: 0 :: 0 :: stub))))) 8 12 = S := by slices0 [lA, lB, lS]
  have s5 : (A ++ (B ++ (cc :: flags :: (S ++ (0 :: 0 :: 0 :: 0 :: stub))))).drop 16 = stub := by slices0 [lA, lB, lS]
  simp only [List.cons_append, List.nil_append, s1, s2, s3, s3', s4, s5, vA, vB, vS, bind, Except.bind, pure, Except.pure]

end DpapiNg.C12

namespace DpapiNg.C12
open DpapiNg DpapiNg.Rpc

structure _root_.DpapiNg.Rpc.ContextResult.WF (r : ContextResult) : Prop where
  result : r.result ≤ 3
  reason : r.reason < 65536
  uuid : r.syntaxUuid.length = 16
  version : r.syntaxVersion < 4294967296

theorem result_rt (r : ContextResult) (wf : r.WF) (rest : Bytes) :
    ∃ b, resultPack r = .ok b ∧ b.length = 24 ∧ resultUnpack (b ++ rest) = .ok r := by
  obtain ⟨w1, w2, w3, w4⟩ := wf
  unfold resultPack
  rw [le_ok _ 2 (by omega), le_ok _ 2 (by omega), le_ok _ 4 (by omega)]
  simp only [bind, Except.bind, pure, Except.pure]
  refine ⟨_, rfl, by simp [w3], ?_⟩
  generalize hA : Py.toLE r.result 2 = A
  generalize hB : Py.toLE r.reason 2 = B
  generalize hC : Py.toLE r.syntaxVersion 4 = Cc
  have lA : A.length = 2 := by rw [← hA]; simp
  have lB : B.length = 2 := by rw [← hB]; simp
  have lC : Cc.length = 4 := by rw [← hC]; simp
  have vA : Py.fromLE A = r.result := by rw [← hA]; exact Py.fromLE_toLE _ 2 (by omega)
  have vB : Py.fromLE B = r.reason := by rw [← hB]; exact Py.fromLE_toLE _ 2 (by omega)
  have vC : Py.fromLE Cc = r.syntaxVersion := by rw [← hC]; exact Py.fromLE_toLE _ 4 (by omega)
  unfold resultUnpack
  simp only [List.append_assoc]
  have s1 : Py.sliceN (A ++ (B ++ (r.syntaxUuid ++ (Cc ++ rest)))) 0 2 = A := by slices0 [lA]
  have s2 : Py.sliceN (A ++ (B ++ (r.syntaxUuid ++ (Cc ++ rest)))) 2 4 = B := by slices0 [lA, lB]
  have s3 : Py.sliceN (A ++ (B ++ (r.syntaxUuid ++ (Cc ++ rest)))) 4 20 = r.syntaxUuid := by slices0 [lA, lB, w3]
  have s4 : Py.sliceN (A ++ (B ++ (r.syntaxUuid ++ (Cc ++ rest)))) 20 24 = Cc := by slices0 [lA, lB, w3, lC]
  have n1 : ¬ r.result > 3 := by omega
  simp [s1, s2, s3, s4, vA, vB, vC, n1, uuidOf, w3, bind, Except.bind, pure, Except.pure]

theorem results_rt (rs : List ContextResult) (wf : ∀ r ∈ rs, r.WF) (rest : Bytes) :
    ∃ bs, rs.mapM resultPack = .ok bs ∧ bs.flatten.length = 24 * rs.length ∧ resultsUnpack rs.length (bs.flatten ++ rest) = .ok rs := by
  induction rs with
  | nil => exact ⟨[], rfl, rfl, rfl⟩
  | cons r rs ih =>
    obtain ⟨bs, h1, h2, h3⟩ := ih (fun x hx => wf x (List.mem_cons_of_mem _ hx))
    obtain ⟨b, hb, hl, hu⟩ := result_rt r (wf r List.mem_cons_self) (bs.flatten ++ rest)
    refine ⟨b :: bs, by simp [List.mapM_cons, hb, h1, bind, Except.bind, pure, Except.pure], by simp [hl, h2]; omega, ?_⟩
    simp only [List.flatten_cons, List.append_assoc, List.length_cons, resultsUnpack, hu, bind, Except.bind]
    have : (b ++ (bs.flatten ++ rest)).drop 24 = bs.flatten ++ rest := by rw [← hl, List.drop_left]
    simp [this, h3, pure, Except.pure]

end DpapiNg.C12

namespace DpapiNg.C12
open DpapiNg DpapiNg.Rpc

theorem zeros_length (n : Nat) : (Py.zeros n).length = n := by simp [Py.zeros]

/-- BIND_ACK / ALTER_CONTEXT_RESP: decode(encode p) = p for every secondary address length (the alignment padding
    `-(2 + len) % 4` is skipped exactly) and every result list -/
theorem bindAck_roundtrip (h : Header) (wf : h.WF) (t : Option SecTrailer) (twf : TrailerWF t) (isAlter : Bool) (mx mr ag : Nat) (sa : Bytes)
    (rs : List ContextResult)
    (hpt : h.packetType = if isAlter then 15 else 12) (hal : h.authLen = authLenOf t)
    (h1 : mx < 65536) (h2 : mr < 65536) (h3 : ag < 4294967296) (hsa : Rpc.utf8Valid sa = true) (hsl : sa.length + 1 < 65536)
    (hrs : ∀ r ∈ rs, r.WF) (hn : rs.length < 256) :
    ∃ b, pduPack ⟨h, t, .bindAck isAlter mx mr ag sa rs⟩ = .ok b ∧
      (h.fragLen = b.length → pduUnpack b = .ok ⟨h, t, .bindAck isAlter mx mr ag sa rs⟩) := by
  obtain ⟨hb, hh, hl, _⟩ := header_roundtrip h wf []
  obtain ⟨bs, hbs, hbl, hbu⟩ := results_rt rs hrs []
  generalize hbsa : (if sa = [] then [] else sa ++ [0] : Bytes) = bsa
  have hbsal : bsa.length < 65536 := by rw [← hbsa]; split <;> simp <;> omega
  obtain ⟨tb, htb, hframe⟩ := unpack_frame h wf t twf hb
    (Py.toLE mx 2 ++ Py.toLE mr 2 ++ Py.toLE ag 4 ++ Py.toLE bsa.length 2 ++ bsa ++ Py.zeros (Py.negMod (2 + bsa.length) 4) ++ Py.toLE rs.length 4 ++ bs.flatten) hh hal
  unfold pduPack
  simp only [hh, bind, Except.bind, hbsa, le_ok _ 2 h1, le_ok _ 2 h2, le_ok _ 4 h3, le_ok _ 2 hbsal, le_ok _ 4 (show rs.length < 256 ^ 4 by omega), hbs, htb, pure, Except.pure]
  refine ⟨_, rfl, fun hf => ?_⟩
  have hf' : h.fragLen = 16 + (Py.toLE mx 2 ++ Py.toLE mr 2 ++ Py.toLE ag 4 ++ Py.toLE bsa.length 2 ++ bsa ++ Py.zeros (Py.negMod (2 + bsa.length) 4) ++ Py.toLE rs.length 4 ++ bs.flatten).length + tb.length := by
    rw [hf]; simp [hl]; omega
  have e := hframe hf'
  simp only [List.append_assoc] at e ⊢
  rw [e]
  generalize hA : Py.toLE mx 2 = A
  generalize hB : Py.toLE mr 2 = B
  generalize hC : Py.toLE ag 4 = Cc
  generalize hD : Py.toLE bsa.length 2 = D
  generalize hZ : Py.zeros (Py.negMod (2 + bsa.length) 4) = Z
  generalize hE : Py.toLE rs.length 4 = E
  have lA : A.length = 2 := by rw [← hA]; simp
  have lB : B.length = 2 := by rw [← hB]; simp
  have lC : Cc.length = 4 := by rw [← hC]; simp
  have lD : D.length = 2 := by rw [← hD]; simp
  have lZ : Z.length = Py.negMod (2 + bsa.length) 4 := by rw [← hZ]; exact zeros_length _
  have lE : E.length = 4 := by rw [← hE]; simp
  have vA : Py.fromLE A = mx := by rw [← hA]; exact Py.fromLE_toLE _ 2 (by omega)
  have vB : Py.fromLE B = mr := by rw [← hB]; exact Py.fromLE_toLE _ 2 (by omega)
  have vC : Py.fromLE Cc = ag := by rw [← hC]; exact Py.fromLE_toLE _ 4 (by omega)
  have vD : Py.fromLE D = bsa.length := by rw [← hD]; exact Py.fromLE_toLE _ 2 (by omega)
  have hE0 : E = rs.length :: [0, 0, 0] := by
    rw [← hE]; simp only [Py.toLE]
    have a1 : rs.length % 256 = rs.length := Nat.mod_eq_of_lt hn
    have a2 : rs.length / 256 = 0 := Nat.div_eq_of_lt hn
    simp [a1, a2]
  unfold bodyUnpack
  have n1 : ¬ (h.packetType = 11 ∨ h.packetType = 14) := by rw [hpt]; cases isAlter <;> decide
  have n2 : (h.packetType = 12 ∨ h.packetType = 15) := by rw [hpt]; cases isAlter <;> decide
  have n3 : (decide (h.packetType = 15)) = isAlter := by rw [hpt]; cases isAlter <;> decide
  simp only [n1, n2, if_false, if_true]
  have s1 : Py.sliceN (A ++ (B ++ (Cc ++ (D ++ (bsa ++ (Z ++ (E ++ bs.flatten))))))) 0 2 = A := by slices0 [lA]
  have s2 : Py.sliceN (A ++ (B ++ (Cc ++ (D ++ (bsa ++ (Z ++ (E ++ bs.flatten))))))) 2 4 = B := by slices0 [lA, lB]
  have s3 : Py.sliceN (A ++ (B ++ (Cc ++ (D ++ (bsa ++ (Z ++ (E ++ bs.flatten))))))) 4 8 = Cc := by slices0 [lA, lB, lC]
  have s4 : Py.sliceN (A ++ (B ++ (Cc ++ (D ++ (bsa ++ (Z ++ (E ++ bs.flatten))))))) 8 10 = D := by slices0 [lA, lB, lC, lD]
  -- the secondary address: `view[10 : 10 + len - 1]` drops the NUL; for an empty address the slice is empty
  have s5 : Py.slice (A ++ (B ++ (Cc ++ (D ++ (bsa ++ (Z ++ (E ++ bs.flatten))))))) 10 (10 + (bsa.length : Int) - 1) = sa := by
    have pre : (A ++ (B ++ (Cc ++ D))).length = 10 := by simp [lA, lB, lC, lD]
    have reassoc : A ++ (B ++ (Cc ++ (D ++ (bsa ++ (Z ++ (E ++ bs.flatten)))))) = (A ++ (B ++ (Cc ++ D))) ++ (bsa ++ (Z ++ (E ++ bs.flatten))) := by simp
    rw [reassoc]
    by_cases hs : sa = []
    · subst hs
      simp only [if_true] at hbsa
      subst hbsa
      have : (10 : Int) + ((([] : Bytes).length : Nat) : Int) - 1 = ((9 : Nat) : Int) := by simp
      rw [this, Py.slice_lit _ 10 _ 10 9 rfl rfl]
      have : (((A ++ (B ++ (Cc ++ D))) ++ ([] ++ (Z ++ (E ++ bs.flatten)))).take 9).length ≤ 9 := by rw [List.length_take]; exact Nat.min_le_left _ _
      exact List.drop_eq_nil_of_le (by omega)
    · simp only [hs, if_false] at hbsa
      subst hbsa
      have : (10 : Int) + (((sa ++ [0]).length : Nat) : Int) - 1 = (((A ++ (B ++ (Cc ++ D))).length + sa.length : Nat) : Int) := by
        rw [pre]; simp; omega
      rw [this, List.append_assoc sa [0], ← List.append_assoc (A ++ (B ++ (Cc ++ D))) sa]
      exact Py.slice_mid (A ++ (B ++ (Cc ++ D))) sa _ 10 _ (by rw [pre]; rfl) rfl
  have s6 : (A ++ (B ++ (Cc ++ (D ++ (bsa ++ (Z ++ (E ++ bs.flatten))))))).drop (10 + bsa.length + Py.negMod (2 + bsa.length) 4) = E ++ bs.flatten := by
    have reassoc : A ++ (B ++ (Cc ++ (D ++ (bsa ++ (Z ++ (E ++ bs.flatten)))))) = (A ++ (B ++ (Cc ++ (D ++ (bsa ++ Z))))) ++ (E ++ bs.flatten) := by simp
    rw [reassoc]
    have : (A ++ (B ++ (Cc ++ (D ++ (bsa ++ Z))))).length = 10 + bsa.length + Py.negMod (2 + bsa.length) 4 := by simp [lA, lB, lC, lD, lZ]; omega
    rw [← this, List.drop_left]
  simp only [s1, s2, s3, s4, s5, s6, vA, vB, vC, vD, hsa, not_true_eq_false, if_false, bind, Except.bind]
  rw [hE0]
  have hb' := hbu
  simp only [List.append_nil] at hb'
  simp [at_, Py.index, hb', n3, pure, Except.pure]

end DpapiNg.C12

namespace DpapiNg.C12
open DpapiNg DpapiNg.Rpc

def SyntaxWF (s : SyntaxId) : Prop := s.uuid.length = 16 ∧ s.version < 65536 ∧ s.versionMinor < 65536

theorem syntaxes_rt (ss : List SyntaxId) (wf : ∀ s ∈ ss, SyntaxWF s) (rest : Bytes) :
    ∃ bs, ss.mapM syntaxPack = .ok bs ∧ bs.flatten.length = 20 * ss.length ∧ syntaxesUnpack ss.length (bs.flatten ++ rest) = .ok ss := by
  induction ss with
  | nil => exact ⟨[], rfl, rfl, rfl⟩
  | cons s ss ih =>
    obtain ⟨bs, h1, h2, h3⟩ := ih (fun x hx => wf x (List.mem_cons_of_mem _ hx))
    obtain ⟨w1, w2, w3⟩ := wf s List.mem_cons_self
    obtain ⟨b, hb, hl, hu⟩ := syntax_roundtrip s w1 w2 w3 (bs.flatten ++ rest)
    refine ⟨b :: bs, by simp [List.mapM_cons, hb, h1, bind, Except.bind, pure, Except.pure], by simp [hl, h2]; omega, ?_⟩
    simp only [List.flatten_cons, List.append_assoc, List.length_cons, syntaxesUnpack, hu, bind, Except.bind]
    have : (b ++ (bs.flatten ++ rest)).drop 20 = bs.flatten ++ rest := by rw [← hl, List.drop_left]
    simp [this, h3, pure, Except.pure]

structure _root_.DpapiNg.Rpc.ContextElement.WF (c : ContextElement) : Prop where
  id : c.contextId < 65536
  abs : SyntaxWF c.abstractSyntax
  ts : ∀ s ∈ c.transferSyntaxes, SyntaxWF s
  n : c.transferSyntaxes.length < 65536

theorem context_rt (c : ContextElement) (wf : c.WF) (rest : Bytes) :
    ∃ b, contextPack c = .ok b ∧ b.length = 24 + c.transferSyntaxes.length * 20 ∧ contextUnpack (b ++ rest) = .ok c := by
  obtain ⟨w1, ⟨a1, a2, a3⟩, w3, w4⟩ := wf
  obtain ⟨ts, hts, htl, htu⟩ := syntaxes_rt c.transferSyntaxes w3 rest
  obtain ⟨sb, hsb, hsl, hsu⟩ := syntax_roundtrip c.abstractSyntax a1 a2 a3 (ts.flatten ++ rest)
  unfold contextPack
  rw [le_ok _ 2 (by omega), le_ok _ 2 (by omega), hsb, hts]
  simp only [bind, Except.bind, pure, Except.pure]
  refine ⟨_, rfl, by simp [hsl, htl]; omega, ?_⟩
  generalize hA : Py.toLE c.contextId 2 = A
  generalize hB : Py.toLE c.transferSyntaxes.length 2 = B
  have lA : A.length = 2 := by rw [← hA]; simp
  have lB : B.length = 2 := by rw [← hB]; simp
  have vA : Py.fromLE A = c.contextId := by rw [← hA]; exact Py.fromLE_toLE _ 2 (by omega)
  have vB : Py.fromLE B = c.transferSyntaxes.length := by rw [← hB]; exact Py.fromLE_toLE _ 2 (by omega)
  unfold contextUnpack
  simp only [List.append_assoc]
  have s1 : Py.sliceN (A ++ (B ++ (sb ++ (ts.flatten ++ rest)))) 0 2 = A := by slices0 [lA]
  have s2 : Py.sliceN (A ++ (B ++ (sb ++ (ts.flatten ++ rest)))) 2 4 = B := by slices0 [lA, lB]
  have s3 : (A ++ (B ++ (sb ++ (ts.flatten ++ rest)))).drop 4 = sb ++ (ts.flatten ++ rest) := by slices0 [lA, lB]
  have s4 : (A ++ (B ++ (sb ++ (ts.flatten ++ rest)))).drop 24 = ts.flatten ++ rest := by slices0 [lA, lB, hsl]
  simp only [s1, s2, s3, s4, vA, vB, hsu, htu, bind, Except.bind, pure, Except.pure]

theorem contexts_rt (cs : List ContextElement) (wf : ∀ c ∈ cs, c.WF) (rest : Bytes) :
    ∃ bs, cs.mapM contextPack = .ok bs ∧ contextsUnpack cs.length (bs.flatten ++ rest) = .ok cs := by
  induction cs with
  | nil => exact ⟨[], rfl, rfl⟩
  | cons c cs ih =>
    obtain ⟨bs, h1, h3⟩ := ih (fun x hx => wf x (List.mem_cons_of_mem _ hx))
    obtain ⟨b, hb, hl, hu⟩ := context_rt c (wf c List.mem_cons_self) (bs.flatten ++ rest)
    refine ⟨b :: bs, by simp [List.mapM_cons, hb, h1, bind, Except.bind, pure, Except.pure], ?_⟩
    simp only [List.flatten_cons, List.append_assoc, List.length_cons, contextsUnpack, hu, bind, Except.bind]
    have : (b ++ (bs.flatten ++ rest)).drop (24 + c.transferSyntaxes.length * 20) = bs.flatten ++ rest := by rw [← hl, List.drop_left]
    simp [this, h3, pure, Except.pure]

/-- BIND / ALTER_CONTEXT: decode(encode p) = p for every context list (any number of transfer syntaxes per context) -/
theorem bind_roundtrip (h : Header) (wf : h.WF) (t : Option SecTrailer) (twf : TrailerWF t) (isAlter : Bool) (mx mr ag : Nat)
    (cs : List ContextElement)
    (hpt : h.packetType = if isAlter then 14 else 11) (hal : h.authLen = authLenOf t)
    (h1 : mx < 65536) (h2 : mr < 65536) (h3 : ag < 4294967296) (hcs : ∀ c ∈ cs, c.WF) (hn : cs.length < 256) :
    ∃ b, pduPack ⟨h, t, .bind isAlter mx mr ag cs⟩ = .ok b ∧
      (h.fragLen = b.length → pduUnpack b = .ok ⟨h, t, .bind isAlter mx mr ag cs⟩) := by
  obtain ⟨hb, hh, hl, _⟩ := header_roundtrip h wf []
  obtain ⟨bs, hbs, hbu⟩ := contexts_rt cs hcs []
  obtain ⟨tb, htb, hframe⟩ := unpack_frame h wf t twf hb (Py.toLE mx 2 ++ Py.toLE mr 2 ++ Py.toLE ag 4 ++ Py.toLE cs.length 4 ++ bs.flatten) hh hal
  unfold pduPack
  simp only [hh, bind, Except.bind, le_ok _ 2 h1, le_ok _ 2 h2, le_ok _ 4 h3, le_ok _ 4 (show cs.length < 256 ^ 4 by omega), hbs, htb, pure, Except.pure]
  refine ⟨_, rfl, fun hf => ?_⟩
  have hf' : h.fragLen = 16 + (Py.toLE mx 2 ++ Py.toLE mr 2 ++ Py.toLE ag 4 ++ Py.toLE cs.length 4 ++ bs.flatten).length + tb.length := by
    rw [hf]; simp [hl]; omega
  have e := hframe hf'
  simp only [List.append_assoc] at e ⊢
  rw [e]
  generalize hA : Py.toLE mx 2 = A
  generalize hB : Py.toLE mr 2 = B
  generalize hC : Py.toLE ag 4 = Cc
  generalize hE : Py.toLE cs.length 4 = E
  have lA : A.length = 2 := by rw [← hA]; simp
  have lB : B.length = 2 := by rw [← hB]; simp
  have lC : Cc.length = 4 := by rw [← hC]; simp
  have vA : Py.fromLE A = mx := by rw [← hA]; exact Py.fromLE_toLE _ 2 (by omega)
  have vB : Py.fromLE B = mr := by rw [← hB]; exact Py.fromLE_toLE _ 2 (by omega)
  have vC : Py.fromLE Cc = ag := by rw [← hC]; exact Py.fromLE_toLE _ 4 (by omega)
  have hE0 : E = cs.length :: [0, 0, 0] := by
    rw [← hE]; simp only [Py.toLE]
    have a1 : cs.length % 256 = cs.length := Nat.mod_eq_of_lt hn
    have a2 : cs.length / 256 = 0 := Nat.div_eq_of_lt hn
    simp [a1, a2]
  subst hE0
  unfold bodyUnpack at_ Py.index
  have n1 : (h.packetType = 11 ∨ h.packetType = 14) := by rw [hpt]; cases isAlter <;> decide
  have n3 : (decide (h.packetType = 14)) = isAlter := by rw [hpt]; cases isAlter <;> decide
  simp only [n1, if_true]
  have s1 : Py.sliceN (A ++ (B ++ (Cc ++ (cs.length :: 0 :: 0 :: 0 :: bs.flatten)))) 0 2 = A := by slices0 [lA]
  have s2 : Py.sliceN (A ++ (B ++ (Cc ++ (cs.length :: 0 :: 0 :: 0 :: bs.flatten)))) 2 4 = B := by slices0 [lA, lB]
  have s3 : Py.sliceN (A ++ (B ++ (Cc ++ (cs.length :: 0 :: 0 :: 0 :: bs.flatten)))) 4 8 = Cc := by slices0 [lA, lB, lC]
  have s4 : (A ++ (B ++ (Cc ++ (cs.length :: 0 :: 0 :: 0 :: bs.flatten))))[8]? = some cs.length := by
    rw [List.getElem?_append_right (by omega), List.getElem?_append_right (by omega), List.getElem?_append_right (by omega)]; simp [lA, lB, lC]
  have s5 : (A ++ (B ++ (Cc ++ (cs.length :: 0 :: 0 :: 0 :: bs.flatten)))).drop 12 = bs.flatten := by slices0 [lA, lB, lC]
  have hb' := hbu
  simp only [List.append_nil] at hb'
  simp only [List.cons_append, List.nil_append, s1, s2, s3, s4, s5, vA, vB, vC, hb', n3, bind, Except.bind, pure, Except.pure]

end DpapiNg.C12

namespace DpapiNg.C12
open DpapiNg DpapiNg.Rpc

theorem cmd_or_flags (cmd k : Nat) (h : cmd < 16384) : (cmd ||| k * 16384) % 16384 = cmd ∧ (cmd ||| k * 16384) / 16384 * 16384 = k * 16384 := by
  have e : k * 16384 = k <<< 14 := by rw [Nat.shiftLeft_eq]
  have := Nat.shiftLeft_add_eq_or_of_lt (i := 14) (b := cmd) (by omega) k
  rw [Nat.or_comm, e, ← this, Nat.shiftLeft_eq]
  omega
end DpapiNg.C12

namespace DpapiNg.C12
open DpapiNg DpapiNg.Rpc

/-- verification-trailer commands the codec round-trips -/
def CommandWF (c : Command) : Prop :=
  c.command < 16384 ∧ (∃ k, k < 4 ∧ c.flags = k * 16384) ∧
  match c.value with
  | .raw v => c.command ≠ 1 ∧ c.command ≠ 2 ∧ c.command ≠ 3 ∧ v.length < 65536
  | .bitmask bits => c.command = 1 ∧ bits < 4294967296
  | .pcontext i t => c.command = 2 ∧ SyntaxWF i ∧ SyntaxWF t
  | .header2 pt dr callId cid op => c.command = 3 ∧ validPacketType pt = true ∧ dr.byteOrder ≤ 1 ∧ dr.character ≤ 1 ∧ dr.floatingPoint ≤ 3 ∧
      callId < 4294967296 ∧ cid < 65536 ∧ op < 65536

theorem command_rt (c : Command) (wf : CommandWF c) :
    ∃ b n, commandPack c = .ok b ∧ b.length = 4 + n ∧ ∀ rest, commandUnpack (b ++ rest) = .ok (c, n) := by
  obtain ⟨cmd, flags, value⟩ := c
  obtain ⟨w1, ⟨k, hk, hfl⟩, w3⟩ := wf
  simp only at w1 hfl w3
  subst hfl
  obtain ⟨m1, m2⟩ := cmd_or_flags cmd k w1
  have hcf : (cmd ||| k * 16384) < 65536 := by
    have : (cmd ||| k * 16384) = (cmd ||| k * 16384) / 16384 * 16384 + (cmd ||| k * 16384) % 16384 := by omega
    rw [m1, m2] at this; omega
  -- common tail: given the packed value `vb` and what the value decoder returns on it
  have tail : ∀ (vb : Bytes) (hvl : vb.length < 65536),
      cmdValuePack ⟨cmd, k * 16384, value⟩ = .ok vb →
      cmdValueUnpack cmd vb = .ok value →
      ∃ b n, commandPack ⟨cmd, k * 16384, value⟩ = .ok b ∧ b.length = 4 + n ∧ ∀ rest, commandUnpack (b ++ rest) = .ok (⟨cmd, k * 16384, value⟩, n) := by
    intro vb hvl hp hdec
    refine ⟨Py.toLE (cmd ||| k * 16384) 2 ++ Py.toLE vb.length 2 ++ vb, vb.length, ?_, by simp; omega, fun rest => ?_⟩
    · unfold commandPack
      simp only [hp, bind, Except.bind, le_ok _ 2 (show (cmd ||| k * 16384) < 256 ^ 2 by omega), le_ok _ 2 (show vb.length < 256 ^ 2 by omega), pure, Except.pure]
    · generalize hA : Py.toLE (cmd ||| k * 16384) 2 = A
      generalize hB : Py.toLE vb.length 2 = B
      have lA : A.length = 2 := by rw [← hA]; simp
      have lB : B.length = 2 := by rw [← hB]; simp
      have vA : Py.fromLE A = (cmd ||| k * 16384) := by rw [← hA]; exact Py.fromLE_toLE _ 2 (by omega)
      have vB : Py.fromLE B = vb.length := by rw [← hB]; exact Py.fromLE_toLE _ 2 (by omega)
      unfold commandUnpack
      simp only [List.append_assoc]
      have s1 : Py.sliceN (A ++ (B ++ (vb ++ rest))) 0 2 = A := by slices0 [lA]
      have s2 : Py.sliceN (A ++ (B ++ (vb ++ rest))) 2 4 = B := by slices0 [lA, lB]
      have s3 : Py.sliceN (A ++ (B ++ (vb ++ rest))) 4 (4 + vb.length) = vb := by
        have := Py.mid' (A ++ B) vb rest 4 (4 + vb.length) (by simp [lA, lB]) rfl
        simpa [Py.sliceN] using this
      simp only [s1, s2, vA, vB, s3, m1, m2, hdec, bind, Except.bind, pure, Except.pure]
  cases value with
  | raw v =>
    obtain ⟨n1, n2, n3, hl⟩ := w3
    exact tail v hl rfl (by simp [cmdValueUnpack, n1, n2, n3, pure, Except.pure])
  | bitmask bits =>
    obtain ⟨e1, hb⟩ := w3
    subst e1
    refine tail (Py.toLE bits 4) (by simp) (by simp [cmdValuePack, le_ok _ 4 (show bits < 256 ^ 4 by omega)]) ?_
    simp [cmdValueUnpack, Py.fromLE_toLE bits 4 (by omega), pure, Except.pure]
  | pcontext i t =>
    obtain ⟨e1, ⟨i1, i2, i3⟩, ⟨t1, t2, t3⟩⟩ := w3
    subst e1
    obtain ⟨bt, hbt, hbtl, hbtu⟩ := syntax_roundtrip t t1 t2 t3 []
    obtain ⟨bi, hbi, hbil, hbiu⟩ := syntax_roundtrip i i1 i2 i3 bt
    refine tail (bi ++ bt) (by simp [hbil, hbtl]) (by simp [cmdValuePack, hbi, hbt, bind, Except.bind, pure, Except.pure]) ?_
    have hd : (bi ++ bt).drop 20 = bt := by rw [← hbil, List.drop_left]
    simp only [List.append_nil] at hbtu
    simp [cmdValueUnpack, hbiu, hd, hbtu, bind, Except.bind, pure, Except.pure]
  | header2 pt dr callId cid op =>
    obtain ⟨e1, hpt, d1, d2, d3, hc, hci, hop⟩ := w3
    subst e1
    have hptl : pt < 256 := by unfold validPacketType at hpt; simp at hpt; omega
    obtain ⟨db, hdb, hdl, hdu⟩ := dataRep_rt dr d1 d2 d3 []
    simp only [List.append_nil] at hdu
    refine tail ([pt] ++ [0, 0, 0] ++ db ++ Py.toLE callId 4 ++ Py.toLE cid 2 ++ Py.toLE op 2) (by simp [hdl])
      (by simp [cmdValuePack, le_ok _ 1 (show pt < 256 ^ 1 by omega), toLE1 _ hptl, hdb, le_ok _ 4 (show callId < 256 ^ 4 by omega), le_ok _ 2 (show cid < 256 ^ 2 by omega),
            le_ok _ 2 (show op < 256 ^ 2 by omega), bind, Except.bind, pure, Except.pure]) ?_
    generalize hX : Py.toLE callId 4 = X
    generalize hY : Py.toLE cid 2 = Y
    generalize hW : Py.toLE op 2 = W
    have lX : X.length = 4 := by rw [← hX]; simp
    have lY : Y.length = 2 := by rw [← hY]; simp
    have lW : W.length = 2 := by rw [← hW]; simp
    have vX : Py.fromLE X = callId := by rw [← hX]; exact Py.fromLE_toLE _ 4 (by omega)
    have vY : Py.fromLE Y = cid := by rw [← hY]; exact Py.fromLE_toLE _ 2 (by omega)
    have vW : Py.fromLE W = op := by rw [← hW]; exact Py.fromLE_toLE _ 2 (by omega)
    unfold cmdValueUnpack
    simp only [List.cons_append, List.nil_append, List.append_assoc]
    have s1 : Py.sliceN (pt :: 0 :: 0 :: 0 :: (db ++ (X ++ (Y ++ W)))) 4 8 = db := by slices0 [hdl]
    have s2 : Py.sliceN (pt :: 0 :: 0 :: 0 :: (db ++ (X ++ (Y ++ W)))) 8 12 = X := by slices0 [hdl, lX]
    have s3 : Py.sliceN (pt :: 0 :: 0 :: 0 :: (db ++ (X ++ (Y ++ W)))) 12 14 = Y := by slices0 [hdl, lX, lY]
    have s4 : Py.sliceN (pt :: 0 :: 0 :: 0 :: (db ++ (X ++ (Y ++ W)))) 14 16 = W := by
      have := Py.mid' (pt :: 0 :: 0 :: 0 :: (db ++ (X ++ Y))) W [] 14 16 (by simp [hdl, lX, lY]) (by simp [lW])
      simpa [Py.sliceN] using this
    simp [at_, Py.index, s1, s2, s3, s4, hpt, hdu, vX, vY, vW, bind, Except.bind, pure, Except.pure]

end DpapiNg.C12

namespace DpapiNg.C12
open DpapiNg DpapiNg.Rpc

def EndSet (c : Command) : Prop := c.flags / 16384 % 2 = 1

theorem vtCommands_rt (init : List Command) (last : Command) (hi : ∀ c ∈ init, CommandWF c ∧ ¬ EndSet c) (hl : CommandWF last ∧ EndSet last) :
    ∃ bs, (init ++ [last]).mapM commandPack = .ok bs ∧ 4 * (init.length + 1) ≤ bs.flatten.length ∧
      ∀ fuel, init.length + 1 ≤ fuel → vtCommands fuel bs.flatten = .ok (init ++ [last]) := by
  induction init with
  | nil =>
    obtain ⟨b, n, hb, hbl, hu⟩ := command_rt last hl.1
    refine ⟨[b], by simp [List.mapM_cons, hb, bind, Except.bind, pure, Except.pure], by simp [hbl], fun fuel hf => ?_⟩
    cases fuel with
    | zero => omega
    | succ fuel =>
      have hu' := hu []
      simp only [List.append_nil] at hu'
      have hge : ¬ b.length < 4 := by omega
      have hend : last.flags / 16384 % 2 = 1 := hl.2
      simp [vtCommands, hge, hu', hend, bind, Except.bind, pure, Except.pure]
  | cons c cs ih =>
    obtain ⟨bs, h1, h2, h3⟩ := ih (fun x hx => hi x (List.mem_cons_of_mem _ hx))
    obtain ⟨wfc, nend⟩ := hi c List.mem_cons_self
    obtain ⟨b, n, hb, hbl, hu⟩ := command_rt c wfc
    refine ⟨b :: bs, by simp [List.mapM_cons, hb, h1, bind, Except.bind, pure, Except.pure],
      by rw [List.flatten_cons, List.length_append, hbl, List.length_cons]; omega, fun fuel hf => ?_⟩
    cases fuel with
    | zero => simp at hf
    | succ fuel =>
      have hge : ¬ (b ++ bs.flatten).length < 4 := by simp [hbl]; omega
      have hne : ¬ (c.flags / 16384 % 2 = 1) := nend
      have hd : (b ++ bs.flatten).drop (4 + n) = bs.flatten := by rw [← hbl, List.drop_left]
      simp only [List.flatten_cons, List.cons_append, vtCommands, hge, if_false, hu bs.flatten, bind, Except.bind, hne, hd,
        h3 fuel (by simp at hf; omega), pure, Except.pure]

/-- **verification trailers**: decode(encode cmds) = cmds whenever exactly the last command carries SEC_VT_COMMAND_END -/
theorem vt_roundtrip (init : List Command) (last : Command) (hi : ∀ c ∈ init, CommandWF c ∧ ¬ EndSet c) (hl : CommandWF last ∧ EndSet last) :
    ∃ b, vtPack (init ++ [last]) = .ok b ∧ vtUnpack b = .ok (init ++ [last]) := by
  obtain ⟨bs, h1, h2, h3⟩ := vtCommands_rt init last hi hl
  refine ⟨vtSignature ++ bs.flatten, by simp [vtPack, h1, bind, Except.bind, pure, Except.pure], ?_⟩
  unfold vtUnpack
  have s1 : Py.sliceN (vtSignature ++ bs.flatten) 0 8 = vtSignature := by
    have := Py.mid' [] vtSignature bs.flatten 0 8 rfl (by decide)
    simpa [Py.sliceN] using this
  have s2 : (vtSignature ++ bs.flatten).drop 8 = bs.flatten := by
    have : vtSignature.length = 8 := by decide
    rw [← this, List.drop_left]
  simp only [s1, ne_eq, not_true_eq_false, if_false, s2]
  apply h3
  have : (vtSignature ++ bs.flatten).length = 8 + bs.flatten.length := by
    rw [List.length_append]; rfl
  rw [this]; omega

end DpapiNg.C12

namespace DpapiNg.C12
open DpapiNg DpapiNg.Rpc

/-- one protocol version of a bind_nak: two octets -/
def verPack (v : Nat × Nat) : R Bytes := do let p ← le v.1 1; let q ← le v.2 1; pure (p ++ q)

theorem verPack_eq : (fun (v : Nat × Nat) => match v with | (x, y) => (do let p ← le x 1; let q ← le y 1; pure (p ++ q) : R Bytes)) = verPack := by
  funext v; obtain ⟨x, y⟩ := v; rfl

theorem versions_rt (vs : List (Nat × Nat)) (wf : ∀ v ∈ vs, v.1 < 256 ∧ v.2 < 256) :
    ∃ bs, vs.mapM verPack = .ok bs ∧ bs.flatten.length = 2 * vs.length ∧
      ∀ rest, versionsUnpack vs.length (bs.flatten ++ rest) = .ok vs := by
  induction vs with
  | nil => exact ⟨[], rfl, rfl, fun _ => rfl⟩
  | cons v vs ih =>
    obtain ⟨x, y⟩ := v
    obtain ⟨bs, h1, h2, h3⟩ := ih (fun z hz => wf z (List.mem_cons_of_mem _ hz))
    obtain ⟨wx, wy⟩ := wf (x, y) List.mem_cons_self
    simp only at wx wy
    have hv : verPack (x, y) = .ok [x, y] := by
      simp [verPack, le_ok _ 1 (show x < 256 ^ 1 by omega), le_ok _ 1 (show y < 256 ^ 1 by omega), toLE1 _ wx, toLE1 _ wy, bind, Except.bind, pure, Except.pure]
    refine ⟨[x, y] :: bs, by simp [List.mapM_cons, hv, h1, bind, Except.bind, pure, Except.pure], by simp [h2]; omega, fun rest => ?_⟩
    simp only [List.flatten_cons, List.cons_append, List.nil_append, List.length_cons, versionsUnpack, at_, Py.index,
      List.getElem?_cons_zero, List.getElem?_cons_succ, bind, Except.bind, List.drop_succ_cons, List.drop_zero, h3, pure, Except.pure]

/-- BIND_NAK: decode(encode p) = p for every protocol-version list (alignment padding skipped) -/
theorem bindNak_roundtrip (h : Header) (wf : h.WF) (reason : Nat) (vs : List (Nat × Nat))
    (hpt : h.packetType = 13) (hal : h.authLen = 0) (h1 : reason < 65536) (hvs : ∀ v ∈ vs, v.1 < 256 ∧ v.2 < 256) (hn : vs.length < 256) :
    ∃ b, pduPack ⟨h, none, .bindNak reason vs⟩ = .ok b ∧
      (h.fragLen = b.length → pduUnpack b = .ok ⟨h, none, .bindNak reason vs⟩) := by
  obtain ⟨hb, hh, hl, _⟩ := header_roundtrip h wf []
  obtain ⟨bs, hbs, hbl, hbu⟩ := versions_rt vs hvs
  obtain ⟨tb, htb, hframe⟩ := unpack_frame h wf none trivial hb
    (Py.toLE reason 2 ++ ([vs.length] ++ bs.flatten) ++ Py.zeros (Py.negMod (2 + ([vs.length] ++ bs.flatten).length) 4)) hh hal
  cases htb
  unfold pduPack
  simp only [verPack_eq]
  simp only [hh, bind, Except.bind, le_ok _ 2 h1, hbs, le_ok _ 1 (show vs.length < 256 ^ 1 by omega), toLE1 _ hn, pure, Except.pure]
  refine ⟨_, rfl, fun hf => ?_⟩
  have hf' : h.fragLen = 16 + (Py.toLE reason 2 ++ ([vs.length] ++ bs.flatten) ++ Py.zeros (Py.negMod (2 + ([vs.length] ++ bs.flatten).length) 4)).length + ([] : Bytes).length := by
    rw [hf]; simp [hl]
  have e := hframe hf'
  simp only [List.append_assoc, List.append_nil] at e ⊢
  rw [e, hpt]
  generalize hA : Py.toLE reason 2 = A
  have lA : A.length = 2 := by rw [← hA]; simp
  have vA : Py.fromLE A = reason := by rw [← hA]; exact Py.fromLE_toLE _ 2 (by omega)
  unfold bodyUnpack at_ Py.index
  have n1 : ¬ ((13 : Nat) = 11 ∨ (13 : Nat) = 14) := by decide
  have n2 : ¬ ((13 : Nat) = 12 ∨ (13 : Nat) = 15) := by decide
  simp only [n1, n2, if_false, if_true]
  generalize hZ : Py.zeros (Py.negMod (2 + ([vs.length] ++ bs.flatten).length) 4) = Z
  have s1 : Py.sliceN (A ++ ([vs.length] ++ (bs.flatten ++ Z))) 0 2 = A := by slices0 [lA]
  have s2 : (A ++ ([vs.length] ++ (bs.flatten ++ Z)))[2]? = some vs.length := by
    rw [List.getElem?_append_right (by omega)]; simp [lA]
  have s3 : (A ++ ([vs.length] ++ (bs.flatten ++ Z))).drop 3 = bs.flatten ++ Z := by
    have : (A ++ [vs.length]).length = 3 := by simp [lA]
    rw [← List.append_assoc, ← this, List.drop_left]
  simp only [s1, s2, s3, vA, hbu Z, bind, Except.bind, pure, Except.pure]

end DpapiNg.C12
