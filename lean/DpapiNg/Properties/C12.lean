import DpapiNg.Model.Rpc
import DpapiNg.Model.Epm
