import DpapiNg.Model.RpcClient
import DpapiNg.Model.Client
