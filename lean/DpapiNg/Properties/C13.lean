/-
  C13 — request framing: lengths, alignment, and exactly the stub region is sealed.
-/
import DpapiNg.Model.RpcClient
import DpapiNg.Model.Client
import DpapiNg.Proofs.Slices
import DpapiNg.Proofs.GkdiRt
import DpapiNg.Properties.C12
namespace DpapiNg.C13
open DpapiNg DpapiNg.Rpc DpapiNg.RpcClient

/-- the body the client puts into a sealed request -/
def sealedBody (stub : Bytes) (vt : Option Bytes) : Bytes :=
  let s1 := match vt with
    | some v => stub ++ Py.zeros (Py.negMod stub.length 4) ++ v
    | none => stub
  s1 ++ Py.zeros (Py.negMod s1.length 16)

/-- `_create_request` on an authenticated connection, for every stub length, verification trailer on/off
    and every signature size: the body is stub ‖ pad4 ‖ vt ‖ pad16, 16-byte aligned; pad_length is exactly
    the padding added and < 16; auth_len is the signature size; the encrypt offsets delimit exactly the
    body; the verification trailer starts at the next 4-byte boundary after the stub. -/
theorem request_layout (a : Auth) (cid op : Nat) (stub : Bytes) (vt : Option Bytes) :
    ∃ pad, (createRequest (some a) cid op stub vt) =
      (⟨mkHeader 0 a.headerLen 1 0, some ⟨a.provider, 6, pad, 0, Py.zeros a.headerLen⟩,
        .request (sealedBody stub vt).length cid op none (sealedBody stub vt)⟩, some (24, 24 + (sealedBody stub vt).length)) ∧
      pad < 16 ∧ (sealedBody stub vt).length % 16 = 0 ∧
      (∀ v, vt = some v → (sealedBody stub vt) = stub ++ Py.zeros (Py.negMod stub.length 4) ++ v ++ Py.zeros pad ∧
        (stub.length + Py.negMod stub.length 4) % 4 = 0 ∧ Py.negMod stub.length 4 < 4) ∧
      (vt = none → (sealedBody stub vt) = stub ++ Py.zeros pad) := by
  cases vt with
  | none =>
    refine ⟨Py.negMod stub.length 16, ?_, Py.negMod_lt _ 16 (by omega), ?_, ?_, ?_⟩
    · simp [createRequest, sealedBody]
    · simp only [sealedBody, List.length_append, Py.zeros_length]; exact Py.negMod_aligned _ 16 (by omega)
    · intro v hv; cases hv
    · intro _; rfl
  | some v =>
    refine ⟨Py.negMod (stub ++ Py.zeros (Py.negMod stub.length 4) ++ v).length 16, ?_, Py.negMod_lt _ 16 (by omega), ?_, ?_, ?_⟩
    · simp [createRequest, sealedBody]
    · simp only [sealedBody, List.length_append, Py.zeros_length]
      have := Py.negMod_aligned (stub.length + Py.negMod stub.length 4 + v.length) 16 (by omega)
      simpa [List.length_append] using this
    · intro v' hv'; cases hv'
      refine ⟨rfl, Py.negMod_aligned _ 4 (by omega), Py.negMod_lt _ 4 (by omega)⟩
    · intro h; cases h

/-- alignment facts, for every length (the property's "every residue mod 16") -/
theorem request_alignment (n : Nat) :
    (n + Py.negMod n 4) % 4 = 0 ∧ Py.negMod n 4 < 4 ∧ (n + Py.negMod n 16) % 16 = 0 ∧ Py.negMod n 16 < 16 := by
  unfold Py.negMod; omega

/-- `_prepare_pdu` with a security context: the first 24 bytes (PDU header + request header) and the
    8-byte security-trailer header of the packed PDU go out unchanged, exactly the bytes between the
    encrypt offsets are replaced by what the context returns, and the signature follows. -/
theorem prepare_layout (a : Auth) (sign : Bool) (pdu : Pdu) (s e : Nat) (b0 b : Bytes)
    (hp : pduPack pdu = .ok b0) (hf : setFragLen b0 = .ok b) :
    preparePdu (some a) sign pdu (some (s, e)) =
      .ok (b.take s ++ (a.wrap sign (b.take s) (Py.sliceN b s e) (Py.sliceN b e (e + 8))).1 ++ Py.sliceN b e (e + 8)
        ++ (a.wrap sign (b.take s) (Py.sliceN b s e) (Py.sliceN b e (e + 8))).2) := by
  unfold preparePdu
  simp only [hp, hf, Bind.bind, Except.bind, pure, Except.pure]

/-- frag_len is the size of the PDU as packed -/
theorem setFragLen_spec (b0 b : Bytes) (h10 : 10 ≤ b0.length) (hlt : b0.length < 65536) (hf : setFragLen b0 = .ok b) :
    b.length = b0.length ∧ Py.fromLE (Py.sliceN b 8 10) = b0.length ∧ b.take 8 = b0.take 8 ∧ b.drop 10 = b0.drop 10 := by
  unfold setFragLen at hf
  rw [C12.le_ok _ 2 (by omega)] at hf
  simp only [Bind.bind, Except.bind, pure, Except.pure, Except.ok.injEq] at hf
  subst hf
  generalize hL : Py.toLE b0.length 2 = L
  have lL : L.length = 2 := by rw [← hL]; simp
  have vL : Py.fromLE L = b0.length := by rw [← hL]; exact Py.fromLE_toLE _ 2 (by omega)
  have lt : (b0.take 8).length = 8 := by rw [List.length_take]; omega
  refine ⟨by simp [lL]; omega, ?_, ?_, ?_⟩
  · have : Py.sliceN (b0.take 8 ++ L ++ b0.drop 10) 8 10 = L := by
      rw [List.append_assoc]; slices0 [lt, lL]
    rw [this, vL]
  · rw [List.append_assoc]; slices0 [lt]
  · rw [List.append_assoc]; slices0 [lt, lL]

/-- reply path: exactly the declared auth padding is stripped before the GetKey result is decoded -/
theorem getKeyResult_strips_exactly (s pad : Bytes) (hp : pad.length ≠ 0) :
    Client.processGetKeyResult (s ++ pad) (some pad.length) = Gkdi.getKeyUnpackResponse s ∧
    Client.processGetKeyResult s (some 0) = Gkdi.getKeyUnpackResponse s ∧
    Client.processGetKeyResult s none = Gkdi.getKeyUnpackResponse s := by
  refine ⟨?_, ?_, ?_⟩
  · unfold Client.processGetKeyResult
    simp only [hp, ne_eq, not_false_eq_true, if_true]
    have : (((s ++ pad).length : Nat) : Int) - (pad.length : Int) = ((s.length : Nat) : Int) := by simp
    rw [this, Py.sliceTo_nat, List.take_left']
    rfl
  · unfold Client.processGetKeyResult
    simp only [ne_eq, not_true_eq_false, if_false]
    rw [Py.sliceTo_nat, List.take_length]
  · unfold Client.processGetKeyResult
    simp only []
    rw [Py.sliceTo_nat, List.take_length]

end DpapiNg.C13
