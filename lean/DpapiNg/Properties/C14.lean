/-
  C14 — replies reassemble identically under any TCP segmentation; EOF is an error.
  A socket is its list of pending chunks; a `recv(n)` returns the first min(n, |head|) bytes.
  All statements are by induction on the chunk list: every partition, any number of chunks,
  splits inside the 16-byte header included.
-/
import DpapiNg.Model.RpcClient
import DpapiNg.Proofs.PyLemmas
namespace DpapiNg.C14
open DpapiNg DpapiNg.Rpc DpapiNg.RpcClient

theorem split_le {c X data rest : Bytes} (h : c ++ X = data ++ rest) (hle : c.length ≤ data.length) :
    ∃ d', data = c ++ d' ∧ X = d' ++ rest := by
  rcases List.append_eq_append_iff.mp h with ⟨a', h1, h2⟩ | ⟨c', h1, h2⟩
  · exact ⟨a', h1, h2⟩
  · have : c'.length = 0 := by
      have := congrArg List.length h1; simp at this; omega
    have hc' : c' = [] := List.eq_nil_of_length_eq_zero this
    subst hc'
    exact ⟨[], by simpa using h1.symm, by simpa using h2.symm⟩

theorem split_gt {c X data rest : Bytes} (h : c ++ X = data ++ rest) (hgt : data.length < c.length) :
    ∃ c', c = data ++ c' ∧ rest = c' ++ X ∧ c' ≠ [] := by
  rcases List.append_eq_append_iff.mp h with ⟨a', h1, h2⟩ | ⟨c', h1, h2⟩
  · have := congrArg List.length h1; simp at this; omega
  · refine ⟨c', h1, h2, ?_⟩
    intro hc; subst hc; simp at h1; subst h1; omega

/-- The read loop returns exactly the first `n` bytes of the stream for EVERY chunking, leaves the rest
    of the stream intact, and issues at most one `recv` per chunk. -/
theorem readN_ok (n : Nat) (chunks : List Bytes) (data rest : Bytes)
    (hne : ∀ c ∈ chunks, c ≠ []) (hflat : chunks.flatten = data ++ rest) (hlen : data.length = n) :
    ∃ r k, readN n chunks = .ok (data, r, k) ∧ r.flatten = rest ∧ k ≤ chunks.length ∧ (∀ c ∈ r, c ≠ []) := by
  induction chunks generalizing n data with
  | nil =>
    simp at hflat
    obtain ⟨rfl, rfl⟩ := hflat
    simp at hlen; subst hlen
    exact ⟨[], 0, by simp [readN], by simp, by simp, by simp⟩
  | cons c cs ih =>
    cases n with
    | zero =>
      have : data = [] := List.eq_nil_of_length_eq_zero hlen
      subst this
      exact ⟨c :: cs, 0, by simp [readN], by simpa using hflat, by simp, hne⟩
    | succ n =>
      have hc : c ≠ [] := hne c (by simp)
      have hcs : ∀ x ∈ cs, x ≠ [] := fun x hx => hne x (by simp [hx])
      simp only [List.flatten_cons] at hflat
      simp only [readN, hc, if_false]
      split
      · rename_i hle
        obtain ⟨d', hd, hX⟩ := split_le hflat (by omega)
        subst hd
        obtain ⟨r, k, h1, h2, h3, h4⟩ := ih (n + 1 - c.length) d' hcs hX (by simp at hlen; omega)
        exact ⟨r, k+1, by rw [h1]; rfl, h2, by simp; omega, h4⟩
      · rename_i hgt
        obtain ⟨c', hc', hrest, hc'ne⟩ := split_gt hflat (by omega)
        subst hc'
        refine ⟨c' :: cs, 1, ?_, by simp [hrest], by simp, ?_⟩
        · rw [← hlen, List.take_left', List.drop_left'] <;> rfl
        · intro x hx; simp at hx; rcases hx with rfl | hx
          · exact hc'ne
          · exact hcs x hx

/-- A stream that ends before `n` bytes have arrived is a ConnectionError. -/
theorem readN_eof (n : Nat) (chunks : List Bytes) (hshort : chunks.flatten.length < n) :
    readN n chunks = .error .connectionError := by
  induction chunks generalizing n with
  | nil => cases n with
    | zero => simp at hshort
    | succ n => rfl
  | cons c cs ih =>
    cases n with
    | zero => simp at hshort
    | succ n =>
      simp only [List.flatten_cons, List.length_append] at hshort
      simp only [readN]
      split
      · rfl
      · split
        · rw [ih (n + 1 - c.length) (by omega)]; rfl
        · omega

/-- The loop never spins: whatever happens, it issues at most one `recv` per chunk plus the one
    that observes the closed connection. -/
theorem readNCalls_le (n : Nat) (chunks : List Bytes) : readNCalls n chunks ≤ chunks.length + 1 := by
  induction chunks generalizing n with
  | nil => cases n <;> simp [readNCalls]
  | cons c cs ih =>
    cases n with
    | zero => simp [readNCalls]
    | succ n =>
      simp only [readNCalls]
      split
      · simp
      · split
        · have := ih (n + 1 - c.length); simp only [List.length_cons]; omega
        · simp

/-- recv calls and what is left: every call either consumes a chunk or splits the last one it touches -/
theorem readN_calls_rest (n : Nat) (cs : List Bytes) (d : Bytes) (r : List Bytes) (k : Nat)
    (hr : readN n cs = .ok (d, r, k)) : k + r.length ≤ cs.length + 1 := by
  induction cs generalizing n d r k with
  | nil => cases n <;> simp [readN] at hr; obtain ⟨_, h2, h3⟩ := hr; subst h2; subst h3; simp
  | cons c cs ih =>
    cases n with
    | zero => simp [readN] at hr; obtain ⟨_, h2, h3⟩ := hr; subst h2; subst h3; simp
    | succ n =>
      simp only [readN] at hr
      split at hr
      · cases hr
      · split at hr
        · cases hrec : readN (n + 1 - c.length) cs with
          | error e => simp [hrec, Except.map] at hr
          | ok v =>
            obtain ⟨d', r', k'⟩ := v
            simp only [hrec, Except.map, Except.ok.injEq, Prod.mk.injEq] at hr
            have := ih _ d' r' k' hrec
            obtain ⟨_, h2, h3⟩ := hr
            subst h2; subst h3
            simp only [List.length_cons]; omega
        · simp only [Except.ok.injEq, Prod.mk.injEq] at hr
          obtain ⟨_, h2, h3⟩ := hr
          subst h2; subst h3
          simp only [List.length_cons]; omega

/-- Reassembly: for every partition of `reply ++ rest` into non-empty chunks, where `reply` is one framed
    PDU (its header decodes and its frag_len is its length ≥ 16), the sync client reads exactly `reply`,
    leaves `rest` unread, and the async client (readexactly over the same byte stream) reads the same. -/
theorem reassembly (reply rest : Bytes) (chunks : List Bytes) (h : Header)
    (hne : ∀ c ∈ chunks, c ≠ []) (hflat : chunks.flatten = reply ++ rest)
    (hhdr : headerUnpack (reply.take 16) = .ok h) (hfl : h.fragLen = reply.length) (h16 : 16 ≤ reply.length) :
    (∃ r k, recvSync chunks = .ok (reply, h, r, k) ∧ r.flatten = rest ∧ k ≤ chunks.length + 1) ∧
    recvAsync chunks.flatten = .ok (reply, h, rest) := by
  have hsplit : reply = reply.take 16 ++ reply.drop 16 := (List.take_append_drop 16 reply).symm
  have hl16 : (reply.take 16).length = 16 := by simp; omega
  constructor
  · have hflat1 : chunks.flatten = reply.take 16 ++ (reply.drop 16 ++ rest) := by
      rw [hflat]
      have := List.take_append_drop 16 reply
      calc reply ++ rest = (reply.take 16 ++ reply.drop 16) ++ rest := by rw [this]
        _ = reply.take 16 ++ (reply.drop 16 ++ rest) := List.append_assoc _ _ _
    obtain ⟨r1, k1, e1, f1, le1, ne1⟩ := readN_ok 16 chunks (reply.take 16) (reply.drop 16 ++ rest) hne hflat1 hl16
    have hl2 : (reply.drop 16).length = h.fragLen - 16 := by simp [hfl]
    obtain ⟨r2, k2, e2, f2, le2, _⟩ := readN_ok (h.fragLen - 16) r1 (reply.drop 16) rest ne1 f1 hl2
    refine ⟨r2, k1 + k2, ?_, f2, ?_⟩
    · unfold recvSync
      have hnot : ¬ h.fragLen < 16 := by omega
      simp only [e1, Bind.bind, Except.bind, hhdr, hnot, if_false, e2, pure, Except.pure]
      rw [← hsplit]
    · have := readN_calls_rest _ _ _ _ _ e1
      omega
  · unfold recvAsync readExactly
    rw [hflat]
    have hlen : ¬ (reply ++ rest).length < 16 := by simp; omega
    simp only [hlen, if_false, Bind.bind, Except.bind]
    have t1 : (reply ++ rest).take 16 = reply.take 16 := by
      rw [List.take_append_of_le_length (by omega)]
    have d1 : (reply ++ rest).drop 16 = reply.drop 16 ++ rest := by
      rw [List.drop_append_of_le_length (by omega)]
    simp only [t1, d1, hhdr]
    have hnot : ¬ h.fragLen < 16 := by omega
    have hlen2 : ¬ (reply.drop 16 ++ rest).length < h.fragLen - 16 := by simp [hfl]
    simp only [hnot, if_false, hlen2, pure, Except.pure]
    have t2 : (reply.drop 16 ++ rest).take (h.fragLen - 16) = reply.drop 16 := by
      rw [hfl]; exact Py.take_prefix _ _ _ (by simp)
    have d2 : (reply.drop 16 ++ rest).drop (h.fragLen - 16) = rest := by
      rw [hfl]; exact Py.drop_prefix _ _ _ (by simp)
    rw [t2, d2, ← hsplit]

/-- EOF before a full PDU is an error for both clients (ConnectionError / IncompleteReadError), never a spin. -/
theorem eof_is_error (chunks : List Bytes) (h : Header) (hne : ∀ c ∈ chunks, c ≠ []) :
    (chunks.flatten.length < 16 → recvSync chunks = .error .connectionError ∧ recvAsync chunks.flatten = .error .incompleteRead) ∧
    (16 ≤ chunks.flatten.length → headerUnpack (chunks.flatten.take 16) = .ok h → 16 ≤ h.fragLen → chunks.flatten.length < h.fragLen →
      recvSync chunks = .error .connectionError ∧ recvAsync chunks.flatten = .error .incompleteRead) := by
  generalize hS : chunks.flatten = S
  constructor
  · intro hs
    have e := readN_eof 16 chunks (by rw [hS]; exact hs)
    constructor
    · unfold recvSync; rw [e]; rfl
    · unfold recvAsync readExactly; simp only [hs, if_true]; rfl
  · intro h16 hh hf hs
    have hflat : chunks.flatten = S.take 16 ++ (S.drop 16 ++ []) := by rw [hS]; simp
    have hl : (S.take 16).length = 16 := by rw [List.length_take]; omega
    obtain ⟨r1, k1, e1, f1, _, ne1⟩ := readN_ok 16 chunks (S.take 16) (S.drop 16 ++ []) hne hflat hl
    have hnot : ¬ h.fragLen < 16 := by omega
    have hdl : (S.drop 16).length = S.length - 16 := List.length_drop
    constructor
    · unfold recvSync
      have hshort : r1.flatten.length < h.fragLen - 16 := by rw [f1, List.append_nil, hdl]; omega
      have e2 := readN_eof _ r1 hshort
      simp only [e1, Bind.bind, Except.bind, hh, hnot, if_false, e2]
    · unfold recvAsync readExactly
      have hlen : ¬ S.length < 16 := by omega
      have hlen2 : (S.drop 16).length < h.fragLen - 16 := by rw [hdl]; omega
      simp only [hlen, if_false, Bind.bind, Except.bind, hh, hnot, hlen2, if_true, pure, Except.pure]

end DpapiNg.C14
