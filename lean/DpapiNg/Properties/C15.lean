/-
  C15 — bind/auth handshake relays tokens faithfully and fails closed.
  The provider is a script of (token, complete-afterwards) legs and the server a script of replies;
  all statements are by induction on the provider script: any number of legs.
-/
import DpapiNg.Model.RpcClient
namespace DpapiNg.C15
open DpapiNg DpapiNg.Rpc DpapiNg.RpcClient

/-- tokens carried by the alter_context PDUs among a list of events -/
def alterTokens (ev : List Event) : List Bytes :=
  ev.filterMap fun e => if e.sentType = 14 then e.sentToken else none

/-- every event the loop adds is an alter_context (14) or a step that sent nothing (255) -/
def OnlyAlter (ev : List Event) : Prop := ∀ e ∈ ev, e.sentType = 14 ∨ e.sentType = 255

/-- The alter_context loop sends the provider's tokens exactly once each and in order: the tokens of the
    alter_context PDUs it adds are a prefix of the script's tokens, all non-empty, and nothing else is sent. -/
theorem tokens_sent (a : Auth) (script : ProviderScript) (complete : Bool) (inTok : Option Bytes) (fc : List ContextElement)
    (sh : Bool) (server : List Bytes) (ev : List Event) (ack : Pdu) :
    ∃ added, (alterLoop a script complete inTok fc sh server ev ack).events = ev ++ added ∧ OnlyAlter added ∧
      ∃ n, n ≤ script.length ∧ alterTokens added = (script.take n).map (·.1) ∧ ∀ t ∈ alterTokens added, t ≠ [] := by
  induction script generalizing complete inTok sh server ev with
  | nil =>
    cases complete with
    | true =>
      refine ⟨[], by simp [alterLoop], ?_, ⟨0, by simp, by simp [alterTokens], by simp [alterTokens]⟩⟩
      intro e he; cases he
    | false =>
      refine ⟨[⟨255, 0, none, [], some (inTok.getD [])⟩], by simp [alterLoop], ?_, ⟨0, by simp, by simp [alterTokens], by simp [alterTokens]⟩⟩
      intro e he; simp at he; subst he; right; rfl
  | cons leg script ih =>
    obtain ⟨tok, done⟩ := leg
    cases complete with
    | true =>
      refine ⟨[], by simp [alterLoop], ?_, ⟨0, by simp, by simp [alterTokens], by simp [alterTokens]⟩⟩
      intro e he; cases he
    | false =>
      by_cases htok : tok = []
      · refine ⟨[⟨255, 0, none, [], some (inTok.getD [])⟩], by simp [alterLoop, htok], ?_, ⟨0, by simp, by simp [alterTokens], by simp [alterTokens]⟩⟩
        intro e he; simp at he; subst he; right; rfl
      · -- one alter_context with `tok`, then either an error or the rest of the loop
        let e0 : Event := ⟨14, (createAlterContext fc (trailerOf a.provider tok) sh).header.packetFlags, some tok, fc.map (·.contextId), some (inTok.getD [])⟩
        have hbase : OnlyAlter [e0] ∧ alterTokens [e0] = [tok] := by
          refine ⟨?_, by simp [alterTokens, e0]⟩
          intro e he; simp at he; subst he; left; rfl
        simp only [alterLoop, htok, if_false]
        cases hx : exchange (some a) sh (createAlterContext fc (trailerOf a.provider tok) sh) .alterContextResp server with
        | error err =>
          refine ⟨[e0], rfl, hbase.1, ⟨1, by simp, by simp [hbase.2], ?_⟩⟩
          intro t ht; rw [hbase.2] at ht; simp at ht; subst ht; exact htok
        | ok rs =>
          obtain ⟨resp, server'⟩ := rs
          simp only
          cases hp : processBindAck resp fc sh with
          | error err =>
            refine ⟨[e0], rfl, hbase.1, ⟨1, by simp, by simp [hbase.2], ?_⟩⟩
            intro t ht; rw [hbase.2] at ht; simp at ht; subst ht; exact htok
          | ok r3 =>
            obtain ⟨_, tok', sh'⟩ := r3
            simp only
            obtain ⟨added, h1, h2, n, hn, h3, h4⟩ := ih done tok' sh' server' (ev ++ [e0])
            refine ⟨e0 :: added, by rw [h1]; simp, ?_, ⟨n + 1, by simp; omega, ?_, ?_⟩⟩
            · intro e he; simp at he; rcases he with rfl | he
              · left; rfl
              · exact h2 e he
            · simp only [alterTokens, List.filterMap_cons, e0, if_true, List.take_succ_cons, List.map_cons]
              congr 1
            · intro t ht
              simp only [alterTokens, List.filterMap_cons, e0, if_true, List.mem_cons] at ht
              rcases ht with rfl | ht
              · exact htok
              · exact h4 t ht

/-- The loop stops when the security context is complete: nothing more is sent and the bind_ack is returned. -/
theorem stops_when_complete (a : Auth) (script : ProviderScript) (inTok : Option Bytes) (fc : List ContextElement) (sh : Bool)
    (server : List Bytes) (ev : List Event) (ack : Pdu) :
    alterLoop a script true inTok fc sh server ev ack = ⟨ev, sh, .ok ack⟩ := by
  cases script <;> simp [alterLoop]

/-- A rejection at any exchange surfaces as an error: if the server's reply to an alter_context is a
    bind_nak, a fault, an unexpected PDU type, or the connection is closed (`exchange` fails), the
    handshake result is that error — nothing further is sent. -/
theorem rejections_surface (a : Auth) (tok : Bytes) (done : Bool) (script : ProviderScript) (inTok : Option Bytes)
    (fc : List ContextElement) (sh : Bool) (server : List Bytes) (ev : List Event) (ack : Pdu) (err : PyErr) (htok : tok ≠ [])
    (hx : exchange (some a) sh (createAlterContext fc (trailerOf a.provider tok) sh) .alterContextResp server = .error err) :
    (alterLoop a ((tok, done) :: script) false inTok fc sh server ev ack).outcome = .error err ∧
    (alterLoop a ((tok, done) :: script) false inTok fc sh server ev ack).events.length = ev.length + 1 := by
  simp [alterLoop, htok, hx]

/-- what `_process_response` turns into an error during binding: bind_nak, fault, and any PDU that is
    not of the expected kind -/
theorem unexpected_is_error (auth : Option Auth) (sign : Bool) (resp : Bytes) (h : Header) (ex : Expect) (p : Pdu)
    (hd : pduUnpack resp = .ok p) (hbad : ex.matches p.body = false) :
    processResponse auth sign resp h ex none = .error .valueError := by
  unfold processResponse
  cases auth <;> simp only [Bind.bind, Except.bind, pure, Except.pure, hd] <;>
    cases hb : p.body <;> simp_all [Expect.matches, throw, throwThe, MonadExceptOf.throw]

/-- Header signing stays on exactly while every ack advertised PFC_SUPPORT_HEADER_SIGN: `_process_bind_ack`
    keeps the flag iff it was on and the ack carries the bit. -/
theorem sign_header_iff (ack : Pdu) (ctxs fc : List ContextElement) (tok : Option Bytes) (sh sh' : Bool)
    (h : processBindAck ack ctxs sh = .ok (fc, tok, sh')) :
    (sh' = true ↔ sh = true ∧ ack.header.packetFlags / 4 % 2 = 1) := by
  unfold processBindAck at h
  cases hb : ack.body with
  | bindAck al mx mr ag sa results =>
    simp only [hb, Bind.bind, Except.bind] at h
    split at h
    · cases h
    · simp only [pure, Except.pure, Except.ok.injEq, Prod.mk.injEq] at h
      obtain ⟨_, _, h3⟩ := h
      rw [← h3]
      by_cases hf : ack.header.packetFlags / 4 % 2 = 1 <;> simp [hf]
  | bind _ _ _ _ _ => simp [hb] at h
  | bindNak _ _ => simp [hb] at h
  | request _ _ _ _ _ => simp [hb] at h
  | response _ _ _ _ => simp [hb] at h
  | fault _ _ _ _ _ _ => simp [hb] at h

/-- the bind PDU carries the first token and advertises header signing; without authentication neither -/
theorem bind_first_token (ctxs : List ContextElement) (tr : SecTrailer) :
    (createBind ctxs (some tr)).1.secTrailer = some tr ∧ (createBind ctxs (some tr)).2 = true ∧
    (createBind ctxs (some tr)).1.header.packetType = 11 ∧ (createBind ctxs (some tr)).1.header.packetFlags / 4 % 2 = 1 ∧
    (createBind ctxs none).1.secTrailer = none ∧ (createBind ctxs none).2 = false := by
  refine ⟨rfl, rfl, rfl, ?_, rfl, rfl⟩
  show (pfcSupportHeaderSign ||| 1 ||| 2) / 4 % 2 = 1
  decide

/-- the token `_process_bind_ack` hands on is exactly the auth value of the ack's security trailer (none if it has no trailer) -/
theorem ack_token (ack : Pdu) (ctxs fc : List ContextElement) (tok : Option Bytes) (sh sh' : Bool)
    (h : processBindAck ack ctxs sh = .ok (fc, tok, sh')) : tok = ack.secTrailer.map (·.authValue) := by
  unfold processBindAck at h
  cases hb : ack.body with
  | bindAck al mx mr ag sa results =>
    simp only [hb, Bind.bind, Except.bind] at h
    split at h
    · cases h
    · simp only [pure, Except.pure, Except.ok.injEq, Prod.mk.injEq] at h
      exact h.2.1.symm
  | _ => simp [hb] at h

/-- one leg of the loop: the provider is stepped with the token received last (`fedToken` of the event), its output goes out in an
    alter_context, and the NEXT leg is fed the auth value of the alter_context_resp just received — the server's tokens are fed
    back in order, none skipped, none repeated -/
theorem tokens_fed (a : Auth) (tok : Bytes) (done : Bool) (script : ProviderScript) (inTok : Option Bytes) (fc : List ContextElement)
    (sh : Bool) (server server' : List Bytes) (ev : List Event) (ack resp : Pdu) (fc' : List ContextElement) (tok' : Option Bytes) (sh' : Bool)
    (htok : tok ≠ [])
    (hx : exchange (some a) sh (createAlterContext fc (trailerOf a.provider tok) sh) .alterContextResp server = .ok (resp, server'))
    (hp : processBindAck resp fc sh = .ok (fc', tok', sh')) :
    ∃ e : Event, e.sentToken = some tok ∧ e.fedToken = some (inTok.getD []) ∧ e.sentType = 14 ∧
      tok' = resp.secTrailer.map (·.authValue) ∧
      alterLoop a ((tok, done) :: script) false inTok fc sh server ev ack = alterLoop a script done tok' fc sh' server' (ev ++ [e]) ack := by
  refine ⟨⟨14, (createAlterContext fc (trailerOf a.provider tok) sh).header.packetFlags, some tok, fc.map (·.contextId), some (inTok.getD [])⟩,
    rfl, rfl, rfl, ack_token resp fc fc' tok' sh sh' hp, ?_⟩
  simp only [alterLoop, htok, if_false, hx, hp]

/-- the first leg: `bind` steps the provider with no token, sends its output in the bind, and feeds the bind_ack's token to the loop -/
theorem bind_feeds_ack_token (a : Auth) (tok : Bytes) (done : Bool) (script : ProviderScript) (contexts : List ContextElement) (server server' : List Bytes)
    (ack : Pdu) (fc : List ContextElement) (tok' : Option Bytes) (sh' : Bool)
    (hx : exchange (some a) (createBind contexts (some (trailerOf a.provider tok))).2 (createBind contexts (some (trailerOf a.provider tok))).1 .bindAck server = .ok (ack, server'))
    (hp : processBindAck ack contexts (createBind contexts (some (trailerOf a.provider tok))).2 = .ok (fc, tok', sh')) :
    ∃ e : Event, e.sentToken = some tok ∧ e.fedToken = none ∧ e.sentType = 11 ∧ tok' = ack.secTrailer.map (·.authValue) ∧
      bind (some a) ((tok, done) :: script) contexts server = alterLoop a script done tok' fc sh' server' [e] ack := by
  refine ⟨⟨11, (createBind contexts (some (trailerOf a.provider tok))).1.header.packetFlags, some tok, contexts.map (·.contextId), none⟩,
    rfl, rfl, rfl, ack_token ack contexts fc tok' _ sh' hp, ?_⟩
  simp only [RpcClient.bind, hx, hp]

end DpapiNg.C15
