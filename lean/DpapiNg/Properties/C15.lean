import DpapiNg.Model.RpcClient
