/-
  C16 — key material is accepted only from replies sealed by the security context.
-/
import DpapiNg.Model.RpcClient
namespace DpapiNg.C16
open DpapiNg DpapiNg.Rpc DpapiNg.RpcClient

def isResponse (b : Body) : Bool := match b with | .response _ _ _ _ => true | _ => false

/-- A response PDU without a security trailer (auth_len = 0) answering a sealed request is rejected
    with ValueError — the stub is never handed to the caller (the D11 repair). -/
theorem cleartext_rejected (a : Auth) (sign : Bool) (resp : Bytes) (h : Header) (offs : Nat × Nat) (p : Pdu)
    (h0 : h.authLen = 0) (hdec : pduUnpack resp = .ok p) (hr : isResponse p.body = true) :
    processResponse (some a) sign resp h .response (some offs) = .error .valueError := by
  obtain ⟨s, e⟩ := offs
  unfold processResponse
  simp only [h0, ne_eq, not_true_eq_false, if_false, pure, Except.pure, Bind.bind, Except.bind, hdec]
  cases hb : p.body with
  | response a1 a2 a3 a4 => simp [throw, throwThe, MonadExceptOf.throw]
  | bind _ _ _ _ _ => simp [hb, isResponse] at hr
  | bindAck _ _ _ _ _ _ => simp [hb, isResponse] at hr
  | bindNak _ _ => simp [hb, isResponse] at hr
  | request _ _ _ _ _ => simp [hb, isResponse] at hr
  | fault _ _ _ _ _ _ => simp [hb, isResponse] at hr

/-- the region of the reply the security context is asked to verify and open -/
def regions (resp : Bytes) (h : Header) (s : Nat) : Bytes × Bytes × Bytes × Bytes :=
  let off : Int := (h.fragLen : Int) - ((h.authLen : Int) + 8)
  (resp.take s, Py.slice resp s off, Py.slice resp off (off + 8), Py.sliceFrom resp (off + 8))

/-- Whatever response PDU `request()` returns on a sealed call, the security context's `unwrap` was run
    on (header, body, trailer header, signature) taken at the offsets frag_len / auth_len dictate, it
    succeeded, and the PDU handed to the caller is the decoding of the frame with exactly that plaintext
    spliced in. -/
theorem sealed_only (a : Auth) (sign : Bool) (resp : Bytes) (h : Header) (s e : Nat) (p : Pdu)
    (hok : processResponse (some a) sign resp h .response (some (s, e)) = .ok p) :
    h.authLen ≠ 0 ∧ ∃ dec, a.unwrap sign (regions resp h s).1 (regions resp h s).2.1 (regions resp h s).2.2.1 (regions resp h s).2.2.2 = .ok dec ∧
      pduUnpack (resp.take (Py.clampIdx resp.length s) ++ dec ++
        resp.drop (max (Py.clampIdx resp.length ((h.fragLen : Int) - ((h.authLen : Int) + 8))) (Py.clampIdx resp.length s))) = .ok p := by
  unfold processResponse at hok
  by_cases h0 : h.authLen = 0
  · -- cleartext: any response is rejected, anything else is not a response
    simp only [h0, ne_eq, not_true_eq_false, if_false, pure, Except.pure, Bind.bind, Except.bind] at hok
    cases hd : pduUnpack resp with
    | error er => simp [hd] at hok
    | ok q =>
      simp only [hd] at hok
      cases hb : q.body <;> simp [hb, Expect.matches, throw, throwThe, MonadExceptOf.throw] at hok
  · refine ⟨h0, ?_⟩
    simp only [h0, ne_eq, not_false_eq_true, if_true, Bind.bind, Except.bind] at hok
    cases hu : a.unwrap sign (List.take s resp) (Py.slice resp ↑s (↑h.fragLen - (↑h.authLen + 8)))
        (Py.slice resp (↑h.fragLen - (↑h.authLen + 8)) (↑h.fragLen - (↑h.authLen + 8) + 8))
        (Py.sliceFrom resp (↑h.fragLen - (↑h.authLen + 8) + 8)) with
    | error er => simp [hu] at hok
    | ok dec =>
      refine ⟨dec, by simpa [regions] using hu, ?_⟩
      simp only [hu, pure, Except.pure] at hok
      generalize hR : (List.take (Py.clampIdx resp.length ↑s) resp ++ dec ++
          List.drop (max (Py.clampIdx resp.length (↑h.fragLen - (↑h.authLen + 8))) (Py.clampIdx resp.length ↑s)) resp) = R at hok ⊢
      cases hd : pduUnpack R with
      | error er => rw [hd] at hok; cases hok
      | ok q =>
        rw [hd] at hok
        simp only at hok
        cases hb : q.body <;> simp [hb, Expect.matches, throw, throwThe, MonadExceptOf.throw, h0] at hok
        · rw [← hok]

/-- integrity idealisation of the security context: `unwrap` succeeds only on what the peer sealed —
    over header and trailer header too when header signing is on — and then yields the sealed plaintext -/
structure Ideal (a : Auth) (sign : Bool) (hdr0 body0 tr0 sig0 plain0 : Bytes) : Prop where
  only : ∀ hdr body tr sig dec, a.unwrap sign hdr body tr sig = .ok dec →
    body = body0 ∧ sig = sig0 ∧ dec = plain0 ∧ (sign = true → hdr = hdr0 ∧ tr = tr0)

/-- Under the idealisation, a reply is accepted only if its body and signature (and, when signing,
    header and trailer header) are the authentic ones, and then the caller gets the authentic plaintext:
    any alteration of those regions is rejected. -/
theorem tamper_rejected (a : Auth) (sign : Bool) (hdr0 body0 tr0 sig0 plain0 : Bytes) (hI : Ideal a sign hdr0 body0 tr0 sig0 plain0)
    (resp : Bytes) (h : Header) (s e : Nat) (p : Pdu)
    (hok : processResponse (some a) sign resp h .response (some (s, e)) = .ok p) :
    (regions resp h s).2.1 = body0 ∧ (regions resp h s).2.2.2 = sig0 ∧
    (sign = true → (regions resp h s).1 = hdr0 ∧ (regions resp h s).2.2.1 = tr0) := by
  obtain ⟨_, dec, hu, _⟩ := sealed_only a sign resp h s e p hok
  obtain ⟨h1, h2, _, h4⟩ := hI.only _ _ _ _ _ hu
  exact ⟨h1, h2, h4⟩

end DpapiNg.C16
