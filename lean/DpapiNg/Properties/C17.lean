/-
  C17 — online vs a conforming DC: faithful requests, correct results, sync = async.
  The sync and async public functions share one model function each (they differ only in `await`),
  so "sync = async" holds of the model by construction; the correspondence check holds both
  implementations to that single model.
-/
import DpapiNg.Model.Online
import DpapiNg.Properties.C13
import DpapiNg.Properties.C01
namespace DpapiNg.C17
open DpapiNg DpapiNg.Rpc DpapiNg.RpcClient DpapiNg.Epm DpapiNg.Client DpapiNg.Online DpapiNg.Blob

/-- unprotect asks the DC for exactly the key the blob names: the target SD derived from the blob's SID,
    the blob's root key id and (L0, L1, L2) -/
theorem getKey_request_unprotect (C : Crypto) (s s' : CState) (data : Bytes) (req : KeyRequest)
    (h : unprotectBegin C s data = (.needsNetwork req, s')) :
    ∃ b sd, blobUnpack data = .ok b ∧ targetSdOf b.sid = .ok sd ∧
      req = ⟨sd, some b.keyId.rootKeyId, b.keyId.l0, b.keyId.l1, b.keyId.l2, some b.keyId.domainName⟩ := by
  unfold unprotectBegin at h
  split at h
  · cases h
  · rename_i b hb
    split at h
    · cases h
    · rename_i sd hsd
      split at h
      · cases h
      · simp only [Prod.mk.injEq, Outcome.needsNetwork.injEq] at h
        exact ⟨b, sd, hb, hsd, h.1.symm⟩
      · rename_i env s1 hget
        simp only [Prod.mk.injEq] at h
        cases hd : decryptBlob C b env.payload <;> simp [ofR, hd] at h

/-- protect asks for the current key: (−1, −1, −1) with the optional root key id -/
theorem getKey_request_protect (C : Crypto) (s s' : CState) (data sid : Bytes) (rk dom : Option Bytes) (t : Nat) (d : Draws) (req : KeyRequest)
    (h : protectBegin C s data sid rk dom t d = (.needsNetwork req, s')) :
    ∃ sd, targetSdOf sid = .ok sd ∧ req = ⟨sd, rk, -1, -1, -1, dom⟩ := by
  unfold protectBegin at h
  split at h
  · cases h
  · rename_i sd hsd
    simp only at h
    split at h
    · cases h
    · simp only [Prod.mk.injEq, Outcome.needsNetwork.injEq] at h
      exact ⟨sd, hsd, h.1.symm⟩
    · rename_i env hg
      simp only [Prod.mk.injEq] at h
      cases he : encryptBlob C data env sid d <;> simp [ofR, he] at h

/-- the GetKey call is sealed at PKT_PRIVACY on context 0, opnum 0, and carries the interface verification
    trailer [PCONTEXT ISD_KEY NDR64, END]: exactly stub ‖ pad4 ‖ vt ‖ pad16 is the region handed to the
    security context -/
theorem request_is_sealed_with_vt (auth : Auth) (stub vt : Bytes) :
    ∃ pad, (createRequest (some auth) 0 0 stub (some vt)).1.secTrailer = some ⟨auth.provider, 6, pad, 0, Py.zeros auth.headerLen⟩ ∧
      (createRequest (some auth) 0 0 stub (some vt)).2 = some (24, 24 + (C13.sealedBody stub (some vt)).length) ∧
      (createRequest (some auth) 0 0 stub (some vt)).1.body = .request (C13.sealedBody stub (some vt)).length 0 0 none (C13.sealedBody stub (some vt)) ∧
      C13.sealedBody stub (some vt) = stub ++ Py.zeros (Py.negMod stub.length 4) ++ vt ++ Py.zeros pad ∧ pad < 16 := by
  obtain ⟨pad, h1, h2, _, h4, _⟩ := C13.request_layout auth 0 0 stub (some vt)
  refine ⟨pad, by rw [h1], by rw [h1], by rw [h1], (h4 vt rfl).1, h2⟩

/-- the verification trailer the client attaches: one PCONTEXT command for (ISD_KEY v1.0, NDR64 v1.0) with the END flag -/
theorem verification_trailer_value : verificationTrailer = [⟨2, 0x4000, .pcontext ⟨uuidIsdKey, 1, 0⟩ ⟨uuidNdr64, 1, 0⟩⟩] := rfl

/-- the ept_map request: tower ISD_KEY v1.0 / NDR v2.0 / RPC connection-oriented / TCP 135 / IP 0.0.0.0, no object, max_towers 4 -/
theorem eptMap_request :
    eptMapIsdKey = ⟨none, [.uuid uuidIsdKey 1 0, .uuid uuidNdr 2 0, .rpcCo 0, .tcp 135, .ip 0], none, 4⟩ ∧
    epmContexts = [⟨0, ⟨uuidEpm, 3, 0⟩, [⟨uuidNdr64, 1, 0⟩]⟩] ∧
    isdKeyContexts = [⟨0, ⟨uuidIsdKey, 1, 0⟩, [⟨uuidNdr64, 1, 0⟩]⟩, ⟨1, ⟨uuidIsdKey, 1, 0⟩, [⟨uuidBtfn, 1, 0⟩]⟩] := ⟨rfl, rfl, rfl⟩

/-- once a (conforming) DC has replied, the plaintext returned is the decryption under that reply: combined
    with C01 (`decrypt_encrypt` and its corollaries) every position decrypts correctly, for callers who
    receive seed keys; a caller who only receives the group public key gets an error, never wrong bytes -/
theorem online_unprotect_correct (C : Crypto) (s : CState) (data : Bytes) (reply : Gkdi.Envelope) (b : Blob) (sd pt : Bytes)
    (hb : blobUnpack data = .ok b) (hsd : targetSdOf b.sid = .ok sd) (hd : decryptBlob C b reply = .ok pt) :
    (unprotectFinish C s data reply).1 = .done pt := by
  unfold unprotectFinish
  simp [hb, hsd, hd, ofR]

theorem online_unprotect_public_key_is_error (C : Crypto) (b : Blob) (reply : Gkdi.Envelope) (hp : reply.isPublicKey = true) :
    decryptBlob C b reply = .error .valueError := by
  unfold decryptBlob Gkdi.getKek
  simp [hp, Bind.bind, Except.bind]

end DpapiNg.C17
