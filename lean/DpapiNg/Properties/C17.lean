import DpapiNg.Model.Online
