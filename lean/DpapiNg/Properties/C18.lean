/-
  C18 — endpoint-mapper replies: right port if well-formed, bounded work for any reply.
-/
import DpapiNg.Model.Epm
import DpapiNg.Proofs.PyLemmas
namespace DpapiNg.C18
open DpapiNg DpapiNg.Rpc DpapiNg.Epm

/-- `firstTcp` is the port of the first tower that has a TCP floor, and within it the first TCP floor. -/
theorem firstTcp_spec (before : List (List Floor)) (t : List Floor) (after : List (List Floor)) (p : Nat)
    (hb : ∀ x ∈ before, towerTcp x = none) (ht : towerTcp t = some p) :
    firstTcp (before ++ t :: after) = some p := by
  induction before with
  | nil => simp only [List.nil_append, firstTcp, ht]
  | cons x xs ih =>
    have hx : towerTcp x = none := hb x (by simp)
    simp only [List.cons_append, firstTcp, hx]
    exact ih (fun y hy => hb y (by simp [hy]))

theorem firstTcp_none (ts : List (List Floor)) (h : ∀ x ∈ ts, towerTcp x = none) : firstTcp ts = none := by
  induction ts with
  | nil => rfl
  | cons x xs ih =>
    have hx : towerTcp x = none := h x (by simp)
    simp only [firstTcp, hx]
    exact ih (fun y hy => h y (by simp [hy]))

/-- `_process_ept_map_result`: a port is returned exactly when the reply decodes, its status is 0 and some
    tower has a TCP floor — and then it is `firstTcp`; a non-zero status or no TCP floor is ValueError. -/
theorem port_is_first_tcp (stub : Bytes) (r : EptMapResult) (h : eptMapResultUnpack stub = .ok r) :
    (r.status = 0 → ∀ p, firstTcp r.towers = some p → processEptMapResult stub = .ok p) ∧
    (r.status ≠ 0 → processEptMapResult stub = .error .valueError) ∧
    (firstTcp r.towers = none → processEptMapResult stub = .error .valueError) := by
  unfold processEptMapResult
  simp only [h, bind, Except.bind]
  refine ⟨?_, ?_, ?_⟩
  · intro hs p hp; simp [hs, hp, pure, Except.pure]
  · intro hs; simp [hs, throw, throwThe, MonadExceptOf.throw]
  · intro hn
    by_cases hs : r.status = 0
    · simp [hs, hn, throw, throwThe, MonadExceptOf.throw]
    · simp [hs, throw, throwThe, MonadExceptOf.throw]

theorem floorsUnpack_suffix (k : Nat) (x : Bytes) (fs : List Floor) (y : Bytes) (hh : floorsUnpack k x = .ok (fs, y)) :
    y.length ≤ x.length := by
  induction k generalizing x fs y with
  | zero => simp [floorsUnpack] at hh; have := congrArg List.length hh.2; omega
  | succ k ihk =>
    simp only [floorsUnpack, bind, Except.bind] at hh
    split at hh
    · cases hh
    · rename_i fl hfl
      obtain ⟨f, l, r⟩ := fl
      simp only at hh
      split at hh
      · cases hh
      · rename_i res hres
        obtain ⟨fs', y'⟩ := res
        simp only [pure, Except.pure, Except.ok.injEq, Prod.mk.injEq] at hh
        have := ihk _ _ _ hres
        rw [← hh.2]
        simp only [List.length_drop] at this; omega

/-- one iteration consumes at least 14 bytes -/
theorem towerStep_consumes (v : Bytes) (t : List Floor) (rest : Bytes) (h : towerStep v = .ok (t, rest)) :
    rest.length + 14 ≤ v.length := by
  unfold towerStep at h
  split at h
  · cases h
  · rename_i hlen
    simp only [bind, Except.bind] at h
    split at h
    · cases h
    · rename_i fw hfw
      obtain ⟨tower, w⟩ := fw
      simp only [pure, Except.pure, Except.ok.injEq, Prod.mk.injEq] at h
      have := floorsUnpack_suffix _ _ _ _ hfw
      rw [← h.2]
      simp only [List.length_drop] at this ⊢
      omega

/-- every tower the repaired loop decodes consumed at least 14 bytes of the reply: the number of decoded
    towers — whatever count the reply announces, 2^64−1 included — is bounded by the reply length -/
theorem towersUnpack_len (n : Nat) (v : Bytes) (ts : List (List Floor)) (h : towersUnpack n v = .ok ts) :
    ts.length = n ∧ 14 * n ≤ v.length := by
  induction n generalizing v ts with
  | zero => simp [towersUnpack] at h; subst h; simp
  | succ n ih =>
    rw [towersUnpack] at h
    split at h
    · cases h
    · rename_i tower rest hstep
      split at h
      · cases h
      · rename_i ts' hrec
        simp only [Except.ok.injEq] at h
        subst h
        have ⟨h1, h2⟩ := ih _ _ hrec
        have := towerStep_consumes _ _ _ hstep
        constructor
        · simp [h1]
        · omega

/-- an announced count the data cannot hold is an error, found after at most |reply|/14 + 1 iterations:
    the result for ANY larger announced count equals the result for that bound -/
theorem towersUnpack_error_mono (n : Nat) (v : Bytes) (e : PyErr) (h : towersUnpack n v = .error e) :
    towersUnpack (n + 1) v = .error e := by
  induction n generalizing v e with
  | zero => simp [towersUnpack] at h
  | succ n ih =>
    rw [towersUnpack] at h ⊢
    split
    · rename_i e' hstep; simp only [hstep] at h; exact h
    · rename_i tower rest hstep
      simp only [hstep] at h
      cases hrec : towersUnpack n rest with
      | ok ts' => simp [hrec] at h
      | error e' =>
        simp only [hrec] at h
        rw [ih _ _ hrec]
        exact h

theorem towersUnpack_bounded (n : Nat) (v : Bytes) (hn : v.length / 14 + 1 ≤ n) :
    towersUnpack n v = towersUnpack (v.length / 14 + 1) v := by
  have herr : ∃ e, towersUnpack (v.length / 14 + 1) v = .error e := by
    cases h : towersUnpack (v.length / 14 + 1) v with
    | error e => exact ⟨e, rfl⟩
    | ok ts => have := (towersUnpack_len _ _ _ h).2; omega
  obtain ⟨e, he⟩ := herr
  rw [he]
  obtain ⟨k, rfl⟩ : ∃ k, n = v.length / 14 + 1 + k := ⟨n - (v.length / 14 + 1), by omega⟩
  clear hn
  induction k with
  | zero => exact he
  | succ k ih => exact towersUnpack_error_mono _ _ _ ih

/-- the floor loop consumes input on every successful iteration as well (≥ 3 bytes are needed per floor) -/
theorem floorsUnpack_len (k : Nat) (x : Bytes) (fs : List Floor) (y : Bytes) (h : floorsUnpack k x = .ok (fs, y)) :
    fs.length = k ∧ (0 < k → 3 ≤ x.length) := by
  induction k generalizing x fs y with
  | zero => simp [floorsUnpack] at h; simp [h.1]
  | succ k ih =>
    simp only [floorsUnpack, bind, Except.bind] at h
    split at h
    · cases h
    · rename_i fl hfl
      obtain ⟨f, l, r⟩ := fl
      simp only at h
      split at h
      · cases h
      · rename_i res hres
        obtain ⟨fs', y'⟩ := res
        simp only [pure, Except.pure, Except.ok.injEq, Prod.mk.injEq] at h
        have := ih _ _ _ hres
        refine ⟨by rw [← h.1]; simp [this.1], fun _ => ?_⟩
        -- `view[2]` must exist
        unfold floorUnpack at hfl
        simp only [bind, Except.bind] at hfl
        cases hat : at_ x 2 with
        | error e => simp [hat] at hfl
        | ok p =>
          unfold at_ Py.index at hat
          cases hx : x[2]? with
          | none => simp [hx] at hat
          | some b =>
            have := List.getElem?_eq_some_iff.mp hx
            obtain ⟨hlt, _⟩ := this
            omega

/-- NDR64 alignment of every tower of the reply: with the padding `-(len + 4) % 8` the next tower
    (conformance + length + bytes + padding = 12 + len + pad) starts 8-aligned, for every length -/
theorem tower_padding_aligned (len : Nat) : (12 + len + Py.negMod (len + 4) 8) % 8 = 0 ∧ Py.negMod (len + 4) 8 < 8 := by
  unfold Py.negMod; omega

end DpapiNg.C18
