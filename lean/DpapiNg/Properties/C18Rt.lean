/-
  C18 (continued) — ept_map replies round-trip through the codec: floors, towers (every length residue mod 8),
  entry handle, referents; hence a well-formed reply with status 0 yields the first TCP floor's port.
  (Separate module because it uses the little-endian / slice helpers of C12, which itself imports C18.)
-/
import DpapiNg.Properties.C12
namespace DpapiNg.C18
open DpapiNg DpapiNg.Rpc DpapiNg.Epm DpapiNg.C12

/-- floors the codec round-trips: fields in range; a raw floor must not use one of the four known protocol ids -/
def FloorWF : Floor → Prop
  | .raw p l r => p < 256 ∧ p ≠ 7 ∧ p ≠ 9 ∧ p ≠ 11 ∧ p ≠ 13 ∧ l.length + 1 < 65536 ∧ r.length < 65536
  | .tcp port => port < 65536
  | .ip addr => addr < 4294967296
  | .rpcCo m => m < 65536
  | .uuid u v m => u.length = 16 ∧ v < 65536 ∧ m < 65536

theorem raw_unpack (p : Nat) (l r rest : Bytes) (hp : p < 256) (hl : l.length + 1 < 65536) (hr : r.length < 65536) :
    ∃ b, rawPack p l r = .ok b ∧ b.length = l.length + r.length + 5 ∧
      Py.fromLE (Py.sliceN (b ++ rest) 0 2) = l.length + 1 ∧ (b ++ rest)[2]? = some p ∧
      Py.sliceN (b ++ rest) 3 (l.length + 1 + 2) = l ∧
      Py.fromLE (Py.sliceN (b ++ rest) (l.length + 1 + 2) (l.length + 1 + 2 + 2)) = r.length ∧
      Py.sliceN (b ++ rest) (l.length + 1 + 2 + 2) (l.length + 1 + 2 + r.length + 2) = r := by
  unfold rawPack
  rw [le_ok _ 2 (by omega), le_ok _ 1 (by omega), le_ok _ 2 (by omega)]
  simp only [bind, Except.bind, pure, Except.pure, toLE1 _ hp]
  refine ⟨_, rfl, by simp; omega, ?_⟩
  generalize hA : Py.toLE (l.length + 1) 2 = A
  generalize hB : Py.toLE r.length 2 = B
  have lA : A.length = 2 := by rw [← hA]; simp
  have lB : B.length = 2 := by rw [← hB]; simp
  have vA : Py.fromLE A = l.length + 1 := by rw [← hA]; exact Py.fromLE_toLE _ 2 (by omega)
  have vB : Py.fromLE B = r.length := by rw [← hB]; exact Py.fromLE_toLE _ 2 (by omega)
  simp only [List.append_assoc, List.cons_append, List.nil_append]
  refine ⟨?_, ?_, ?_, ?_, ?_⟩
  · have : Py.sliceN (A ++ (p :: (l ++ (B ++ (r ++ rest))))) 0 2 = A := by slices0 [lA]
    rw [this, vA]
  · rw [List.getElem?_append_right (by omega)]; simp [lA]
  · have := Py.mid' (A ++ [p]) l (B ++ (r ++ rest)) 3 (l.length + 1 + 2) (by simp [lA]) (by omega)
    simpa [Py.sliceN] using this
  · have := Py.mid' (A ++ [p] ++ l) B (r ++ rest) (l.length + 1 + 2) (l.length + 1 + 2 + 2) (by simp [lA]; omega) (by omega)
    have e : Py.sliceN (A ++ (p :: (l ++ (B ++ (r ++ rest))))) (l.length + 1 + 2) (l.length + 1 + 2 + 2) = B := by simpa [Py.sliceN] using this
    rw [e, vB]
  · have := Py.mid' (A ++ [p] ++ l ++ B) r rest (l.length + 1 + 2 + 2) (l.length + 1 + 2 + r.length + 2) (by simp [lA, lB]; omega) (by omega)
    simpa [Py.sliceN] using this

theorem floorUnpack_raw (p : Nat) (l r rest b : Bytes) (hp : p < 256) (hl : l.length + 1 < 65536) (hr : r.length < 65536)
    (hb : rawPack p l r = .ok b) :
    b.length = l.length + r.length + 5 ∧
    floorUnpack (b ++ rest) = (do
      let f ← (if p = 7 then pure (.tcp (Py.fromBE r))
        else if p = 9 then pure (.ip (Py.fromBE r))
        else if p = 11 then pure (.rpcCo (Py.fromLE r))
        else if p = 13 then do
          let u ← uuidOf (Py.sliceN l 0 16)
          pure (.uuid u (Py.fromLE (Py.sliceN l 16 18)) (Py.fromLE r))
        else pure (.raw p l r) : R Floor)
      pure (f, l.length, r.length)) := by
  obtain ⟨b', hb', hlen, f1, f2, f3, f4, f5⟩ := raw_unpack p l r rest hp hl hr
  rw [hb] at hb'; cases hb'
  refine ⟨hlen, ?_⟩
  unfold floorUnpack at_ Py.index
  simp only [f1, f2, f3, f4, f5, bind, Except.bind]

theorem toBE_length' (n k : Nat) : (Py.toBE n k).length = k := by simp [Py.toBE]

/-- one floor: decode(encode f) = f, and the reader advances by exactly the encoded size -/
theorem floor_rt (f : Floor) (wf : FloorWF f) :
    ∃ b l r, floorPack f = .ok b ∧ b.length = l + r + 5 ∧ ∀ rest, floorUnpack (b ++ rest) = .ok (f, l, r) := by
  cases f with
  | raw p l r =>
    obtain ⟨h1, h2, h3, h4, h5, h6, h7⟩ := wf
    obtain ⟨b, hb, _⟩ := raw_unpack p l r [] h1 h6 h7
    refine ⟨b, l.length, r.length, hb, (floorUnpack_raw p l r [] b h1 h6 h7 hb).1, fun rest => ?_⟩
    rw [(floorUnpack_raw p l r rest b h1 h6 h7 hb).2]; simp [h2, h3, h4, h5, bind, Except.bind, pure, Except.pure]
  | tcp port =>
    have wf' : port < 65536 := wf
    have hr : Py.toBytesBE (port : Int) 2 = .ok (Py.toBE port 2) := Py.toBytesBE_ok port 2 (by omega)
    obtain ⟨b, hb, _⟩ := raw_unpack 7 [] (Py.toBE port 2) [] (by omega) (by simp) (by rw [toBE_length']; omega)
    have h := fun rest => floorUnpack_raw 7 [] (Py.toBE port 2) rest b (by omega) (by simp) (by rw [toBE_length']; omega) hb
    refine ⟨b, 0, 2, by simp [floorPack, hr, hb, bind, Except.bind], by simpa [toBE_length'] using (h []).1, fun rest => ?_⟩
    rw [(h rest).2]; simp [Py.fromBE_toBE port 2 (by omega), toBE_length', bind, Except.bind, pure, Except.pure]
  | ip addr =>
    have wf' : addr < 4294967296 := wf
    have hr : Py.toBytesBE (addr : Int) 4 = .ok (Py.toBE addr 4) := Py.toBytesBE_ok addr 4 (by omega)
    obtain ⟨b, hb, _⟩ := raw_unpack 9 [] (Py.toBE addr 4) [] (by omega) (by simp) (by rw [toBE_length']; omega)
    have h := fun rest => floorUnpack_raw 9 [] (Py.toBE addr 4) rest b (by omega) (by simp) (by rw [toBE_length']; omega) hb
    refine ⟨b, 0, 4, by simp [floorPack, hr, hb, bind, Except.bind], by simpa [toBE_length'] using (h []).1, fun rest => ?_⟩
    rw [(h rest).2]; simp [Py.fromBE_toBE addr 4 (by omega), toBE_length', bind, Except.bind, pure, Except.pure]
  | rpcCo m =>
    have wf' : m < 65536 := wf
    have hr : le m 2 = .ok (Py.toLE m 2) := le_ok m 2 (by omega)
    obtain ⟨b, hb, _⟩ := raw_unpack 11 [] (Py.toLE m 2) [] (by omega) (by simp) (by simp)
    have h := fun rest => floorUnpack_raw 11 [] (Py.toLE m 2) rest b (by omega) (by simp) (by simp) hb
    refine ⟨b, 0, 2, by simp [floorPack, hr, hb, bind, Except.bind], by simpa using (h []).1, fun rest => ?_⟩
    rw [(h rest).2]; simp [Py.fromLE_toLE m 2 (by omega), bind, Except.bind, pure, Except.pure]
  | uuid u v m =>
    obtain ⟨h1, h2, h3⟩ := wf
    have hv : le v 2 = .ok (Py.toLE v 2) := le_ok v 2 (by omega)
    have hm : le m 2 = .ok (Py.toLE m 2) := le_ok m 2 (by omega)
    obtain ⟨b, hb, _⟩ := raw_unpack 13 (u ++ Py.toLE v 2) (Py.toLE m 2) [] (by omega) (by simp [h1]) (by simp)
    have h := fun rest => floorUnpack_raw 13 (u ++ Py.toLE v 2) (Py.toLE m 2) rest b (by omega) (by simp [h1]) (by simp) hb
    refine ⟨b, 18, 2, by simp [floorPack, hv, hm, hb, bind, Except.bind], by simpa [h1] using (h []).1, fun rest => ?_⟩
    rw [(h rest).2]
    have s1 : Py.sliceN (u ++ Py.toLE v 2) 0 16 = u := by slices0 [h1]
    have s2 : Py.sliceN (u ++ Py.toLE v 2) 16 18 = Py.toLE v 2 := by
      have := Py.mid' u (Py.toLE v 2) [] 16 18 h1 (by simp)
      simpa [Py.sliceN] using this
    simp [s1, s2, uuidOf, h1, Py.fromLE_toLE v 2 (by omega), Py.fromLE_toLE m 2 (by omega), bind, Except.bind, pure, Except.pure]

theorem floors_rt (fs : List Floor) (wf : ∀ f ∈ fs, FloorWF f) :
    ∃ bs, fs.mapM floorPack = .ok bs ∧ ∀ rest, floorsUnpack fs.length (bs.flatten ++ rest) = .ok (fs, rest) := by
  induction fs with
  | nil => exact ⟨[], rfl, fun _ => rfl⟩
  | cons f fs ih =>
    obtain ⟨bs, h1, h2⟩ := ih (fun x hx => wf x (List.mem_cons_of_mem _ hx))
    obtain ⟨b, l, r, hb, hl, hu⟩ := floor_rt f (wf f List.mem_cons_self)
    refine ⟨b :: bs, by simp [List.mapM_cons, hb, h1, bind, Except.bind, pure, Except.pure], fun rest => ?_⟩
    simp only [List.flatten_cons, List.append_assoc, List.length_cons, floorsUnpack, hu, bind, Except.bind]
    have : (b ++ (bs.flatten ++ rest)).drop (l + r + 5) = bs.flatten ++ rest := by rw [← hl, List.drop_left]
    simp [this, h2, pure, Except.pure]

theorem sliceFrom_neg_suffix {α} (a b : List α) (n : Nat) (hn : b.length = n) (hpos : 0 < n) :
    Py.sliceFrom (a ++ b) (-(n : Int)) = b := by
  unfold Py.sliceFrom Py.clampIdx
  have h0 : (-(n : Int)) < 0 := by omega
  simp only [h0, if_true, List.length_append]
  have : (-(n : Int) + ((a.length + b.length : Nat) : Int)).toNat = a.length := by omega
  rw [this, List.drop_left]

theorem zeros_length (n : Nat) : (Py.zeros n).length = n := by simp [Py.zeros]

/-- a tower of the reply -/
def TowerWF (t : List Floor) : Prop := (∀ f ∈ t, FloorWF f) ∧ t.length < 65536

/-- one tower entry (conformance, length, floors, NDR64 padding): one step of the decoder's loop reads it back and
    stops exactly at the next entry -/
theorem towerStep_entry (t : List Floor) (wf : TowerWF t) (hlen : ∀ bt, towerBytes t = .ok bt → bt.length < 4294967296) :
    ∃ b, towerEntryPack t = .ok b ∧ 14 ≤ b.length ∧ ∀ rest, towerStep (b ++ rest) = .ok (t, rest) := by
  obtain ⟨wf1, wf2⟩ := wf
  obtain ⟨bs, hbs, hfu⟩ := floors_rt t wf1
  have htb : towerBytes t = .ok (Py.toLE t.length 2 ++ bs.flatten) := by
    unfold towerBytes; simp [le_ok _ 2 (show t.length < 256 ^ 2 by omega), hbs, bind, Except.bind, pure, Except.pure]
  have hbl := hlen _ htb
  generalize hN : Py.toLE t.length 2 = N at *
  have lN : N.length = 2 := by rw [← hN]; simp
  have vN : Py.fromLE N = t.length := by rw [← hN]; exact Py.fromLE_toLE _ 2 (by omega)
  unfold towerEntryPack
  simp only [htb, bind, Except.bind, le_ok _ 8 (show (N ++ bs.flatten).length < 256 ^ 8 by omega), le_ok _ 4 (show (N ++ bs.flatten).length < 256 ^ 4 by omega), pure, Except.pure]
  generalize hL8 : Py.toLE (N ++ bs.flatten).length 8 = L8
  generalize hL4 : Py.toLE (N ++ bs.flatten).length 4 = L4
  generalize hZ : Py.zeros (Py.negMod ((N ++ bs.flatten).length + 4) 8) = Z
  have l8 : L8.length = 8 := by rw [← hL8]; simp
  have l4 : L4.length = 4 := by rw [← hL4]; simp
  have lZ : Z.length = Py.negMod ((N ++ bs.flatten).length + 4) 8 := by rw [← hZ]; exact zeros_length _
  have v8 : Py.fromLE L8 = (N ++ bs.flatten).length := by rw [← hL8]; exact Py.fromLE_toLE _ 8 (by omega)
  refine ⟨_, rfl, by simp [l8, l4, lN]; omega, fun rest => ?_⟩
  unfold towerStep
  have hge : ¬ (L8 ++ L4 ++ (N ++ bs.flatten) ++ Z ++ rest).length < 14 := by simp [l8, l4, lN]; omega
  simp only [hge, if_false]
  have s1 : Py.sliceN (L8 ++ L4 ++ (N ++ bs.flatten) ++ Z ++ rest) 0 8 = L8 := by
    simp only [List.append_assoc]; slices0 [l8]
  have s2 : Py.sliceN (L8 ++ L4 ++ (N ++ bs.flatten) ++ Z ++ rest) 12 14 = N := by
    simp only [List.append_assoc]; slices0 [l8, l4, lN]
  have s3 : (L8 ++ L4 ++ (N ++ bs.flatten) ++ Z ++ rest).drop 14 = bs.flatten ++ (Z ++ rest) := by
    simp only [List.append_assoc]; slices0 [l8, l4, lN]
  simp only [s1, s2, s3, v8, vN, hfu, bind, Except.bind, pure, Except.pure]
  have : (Z ++ rest).drop (Py.negMod ((N ++ bs.flatten).length + 4) 8) = rest := by rw [← lZ, List.drop_left]
  rw [this]

theorem towers_rt (ts : List (List Floor)) (wf : ∀ t ∈ ts, TowerWF t ∧ ∀ bt, towerBytes t = .ok bt → bt.length < 4294967296) :
    ∃ bs, ts.mapM towerEntryPack = .ok bs ∧ ∀ rest, towersUnpack ts.length (bs.flatten ++ rest) = .ok ts := by
  induction ts with
  | nil => exact ⟨[], rfl, fun _ => rfl⟩
  | cons t ts ih =>
    obtain ⟨bs, h1, h2⟩ := ih (fun x hx => wf x (List.mem_cons_of_mem _ hx))
    obtain ⟨b, hb, _, hu⟩ := towerStep_entry t (wf t List.mem_cons_self).1 (wf t List.mem_cons_self).2
    refine ⟨b :: bs, by simp [List.mapM_cons, hb, h1, bind, Except.bind, pure, Except.pure], fun rest => ?_⟩
    simp only [List.flatten_cons, List.append_assoc, List.length_cons]
    rw [towersUnpack, hu]
    simp only [h2]

theorem referents_ok (i n : Nat) (h : i + n + 3 < 4294967296) : ∃ b, referents i n = .ok b ∧ b.length = 8 * n := by
  induction n generalizing i with
  | zero => exact ⟨[], rfl, rfl⟩
  | succ n ih =>
    obtain ⟨b, hb, hl⟩ := ih (i + 1) (by omega)
    refine ⟨Py.toLE (i + 3) 8 ++ b, ?_, by simp [hl]; omega⟩
    simp [referents, le_ok _ 8 (show i + 3 < 256 ^ 8 by omega), hb, bind, Except.bind, pure, Except.pure]

/-- entry handles the codec round-trips (an all-zero handle is `None`) -/
def HandleWF (h : EntryHandle) : Prop :=
  match h with
  | none => True
  | some (a, u) => a < 4294967296 ∧ u.length = 16 ∧ Py.toLE a 4 ++ u ≠ Py.zeros 20

theorem entryHandle_rt (h : EntryHandle) (wf : HandleWF h) :
    ∃ b, entryHandlePack h = .ok b ∧ b.length = 20 ∧ ∀ rest, entryHandleUnpack (b ++ rest) = .ok h := by
  cases h with
  | none =>
    refine ⟨Py.zeros 20, rfl, zeros_length 20, fun rest => ?_⟩
    unfold entryHandleUnpack
    have : Py.sliceN (Py.zeros 20 ++ rest) 0 20 = Py.zeros 20 := by
      have := Py.mid' [] (Py.zeros 20) rest 0 20 rfl (by simp [zeros_length])
      simpa [Py.sliceN] using this
    simp [this]
  | some au =>
    obtain ⟨a, u⟩ := au
    obtain ⟨w1, w2, w3⟩ := wf
    refine ⟨Py.toLE a 4 ++ u, by simp [entryHandlePack, le_ok _ 4 (show a < 256 ^ 4 by omega), bind, Except.bind, pure, Except.pure],
      by simp [w2], fun rest => ?_⟩
    unfold entryHandleUnpack
    generalize hA : Py.toLE a 4 = A at *
    have lA : A.length = 4 := by rw [← hA]; simp
    have vA : Py.fromLE A = a := by rw [← hA]; exact Py.fromLE_toLE _ 4 (by omega)
    have s0 : Py.sliceN (A ++ u ++ rest) 0 20 = A ++ u := by
      have := Py.mid' [] (A ++ u) rest 0 20 rfl (by simp [lA, w2])
      simpa [Py.sliceN] using this
    have s1 : Py.sliceN (A ++ u ++ rest) 4 20 = u := by simp only [List.append_assoc]; slices0 [lA, w2]
    have s2 : Py.sliceN (A ++ u ++ rest) 0 4 = A := by simp only [List.append_assoc]; slices0 [lA]
    simp only [List.append_assoc] at s0 s1 s2
    simp [s0, s1, s2, w3, uuidOf, w2, vA, Except.map]

structure _root_.DpapiNg.Epm.EptMapResult.WF (r : EptMapResult) : Prop where
  handle : HandleWF r.entryHandle
  towers : ∀ t ∈ r.towers, TowerWF t ∧ ∀ bt, towerBytes t = .ok bt → bt.length < 4294967296
  count : r.towers.length + 3 < 4294967296
  status : r.status < 4294967296

/-- **ept_map replies**: decode(encode r) = r for every well-formed reply — any number of towers, any floors, every tower
    length residue mod 8 (the NDR64 padding is skipped exactly). -/
theorem eptMapResult_roundtrip (r : EptMapResult) (wf : r.WF) :
    ∃ b, eptMapResultPack r = .ok b ∧ eptMapResultUnpack b = .ok r := by
  obtain ⟨w1, w2, w3, w4⟩ := wf
  obtain ⟨eh, heh, hel, heu⟩ := entryHandle_rt r.entryHandle w1
  obtain ⟨refs, hrefs, hrl⟩ := referents_ok 0 r.towers.length (by omega)
  obtain ⟨ts, hts, htu⟩ := towers_rt r.towers w2
  unfold eptMapResultPack
  simp only [heh, bind, Except.bind, le_ok _ 4 (show r.towers.length < 256 ^ 4 by omega), le_ok _ 8 (show r.towers.length < 256 ^ 8 by omega),
    hrefs, hts, le_ok _ 4 (show r.status < 256 ^ 4 by omega), pure, Except.pure]
  refine ⟨_, rfl, ?_⟩
  generalize hN4 : Py.toLE r.towers.length 4 = N4
  generalize hN8 : Py.toLE r.towers.length 8 = N8
  generalize hS : Py.toLE r.status 4 = S
  generalize hZ : Py.zeros 8 = Z
  have l4 : N4.length = 4 := by rw [← hN4]; simp
  have l8 : N8.length = 8 := by rw [← hN8]; simp
  have lS : S.length = 4 := by rw [← hS]; simp
  have lZ : Z.length = 8 := by rw [← hZ]; exact zeros_length 8
  have v8 : Py.fromLE N8 = r.towers.length := by rw [← hN8]; exact Py.fromLE_toLE _ 8 (by omega)
  have vS : Py.fromLE S = r.status := by rw [← hS]; exact Py.fromLE_toLE _ 4 (by omega)
  unfold eptMapResultUnpack
  have e1 : Py.sliceFrom (eh ++ N4 ++ N8 ++ Z ++ N8 ++ refs ++ ts.flatten ++ S) (-4) = S := by
    have := sliceFrom_neg_suffix (eh ++ N4 ++ N8 ++ Z ++ N8 ++ refs ++ ts.flatten) S 4 lS (by omega)
    simpa using this
  have e2 := heu (N4 ++ N8 ++ Z ++ N8 ++ refs ++ ts.flatten ++ S)
  have e3 : Py.sliceN (eh ++ N4 ++ N8 ++ Z ++ N8 ++ refs ++ ts.flatten ++ S) 40 48 = N8 := by
    simp only [List.append_assoc]; slices0 [hel, l4, l8, lZ]
  have e4 : (eh ++ N4 ++ N8 ++ Z ++ N8 ++ refs ++ ts.flatten ++ S).drop (48 + 8 * r.towers.length) = ts.flatten ++ S := by
    have : (eh ++ N4 ++ N8 ++ Z ++ N8 ++ refs).length = 48 + 8 * r.towers.length := by simp [hel, l4, l8, lZ, hrl]; omega
    rw [← this]
    have re : eh ++ N4 ++ N8 ++ Z ++ N8 ++ refs ++ ts.flatten ++ S = (eh ++ N4 ++ N8 ++ Z ++ N8 ++ refs) ++ (ts.flatten ++ S) := by simp
    rw [re, List.drop_left]
  simp only [List.append_assoc] at e2 e1 e3 e4 ⊢
  simp only [e1, e2, e3, e4, v8, vS, htu, bind, Except.bind, pure, Except.pure]

/-- … hence the client connects to the TCP port of the first tower that has one, for every well-formed reply with status 0. -/
theorem wellformed_reply_gives_port (r : EptMapResult) (wf : r.WF) (hst : r.status = 0) (p : Nat) (hp : firstTcp r.towers = some p) :
    ∃ b, eptMapResultPack r = .ok b ∧ processEptMapResult b = .ok p := by
  obtain ⟨b, hb, hu⟩ := eptMapResult_roundtrip r wf
  exact ⟨b, hb, (port_is_first_tcp b r hu).1 hst p hp⟩

structure _root_.DpapiNg.Epm.EptMap.WF (m : EptMap) : Prop where
  obj : match m.obj with | none => True | some u => u.length = 16 ∧ u ≠ Py.zeros 16
  tower : TowerWF m.tower
  towerLen : ∀ bt, towerBytes m.tower = .ok bt → bt.length < 4294967296
  handle : HandleWF m.entryHandle
  maxTowers : m.maxTowers < 4294967296

/-- **ept_map requests**: decode(encode m) = m (object UUID present / absent, any tower, NDR64 padding skipped exactly) -/
theorem eptMap_roundtrip (m : EptMap) (wf : m.WF) : ∃ b, eptMapPack m = .ok b ∧ eptMapUnpack b = .ok m := by
  obtain ⟨w1, ⟨wt1, wt2⟩, w3, w4, w5⟩ := wf
  obtain ⟨bs, hbs, hfu⟩ := floors_rt m.tower wt1
  have htb : towerBytes m.tower = .ok (Py.toLE m.tower.length 2 ++ bs.flatten) := by
    unfold towerBytes; simp [le_ok _ 2 (show m.tower.length < 256 ^ 2 by omega), hbs, bind, Except.bind, pure, Except.pure]
  have hbl := w3 _ htb
  obtain ⟨eh, heh, hel, heu⟩ := entryHandle_rt m.entryHandle w4
  generalize hN : Py.toLE m.tower.length 2 = N at *
  have lN : N.length = 2 := by rw [← hN]; simp
  have vN : Py.fromLE N = m.tower.length := by rw [← hN]; exact Py.fromLE_toLE _ 2 (by omega)
  unfold eptMapPack
  simp only [htb, bind, Except.bind, heh, le_ok _ 8 (show (N ++ bs.flatten).length < 256 ^ 8 by omega), le_ok _ 4 (show (N ++ bs.flatten).length < 256 ^ 4 by omega),
    le_ok _ 4 (show m.maxTowers < 256 ^ 4 by omega), pure, Except.pure]
  refine ⟨_, rfl, ?_⟩
  generalize hO : m.obj.getD (Py.zeros 16) = O
  have lO : O.length = 16 := by
    rw [← hO]; cases hobj : m.obj with
    | none => simp [Py.zeros]
    | some u => rw [hobj] at w1; simpa using w1.1
  generalize hL8 : Py.toLE (N ++ bs.flatten).length 8 = L8
  generalize hL4 : Py.toLE (N ++ bs.flatten).length 4 = L4
  generalize hZ : Py.zeros (Py.negMod ((N ++ bs.flatten).length + 4) 8) = Z
  generalize hM : Py.toLE m.maxTowers 4 = M
  have l8 : L8.length = 8 := by rw [← hL8]; simp
  have l4 : L4.length = 4 := by rw [← hL4]; simp
  have lZ : Z.length = Py.negMod ((N ++ bs.flatten).length + 4) 8 := by rw [← hZ]; exact zeros_length _
  have lM : M.length = 4 := by rw [← hM]; simp
  have v8 : Py.fromLE L8 = (N ++ bs.flatten).length := by rw [← hL8]; exact Py.fromLE_toLE _ 8 (by omega)
  have vM : Py.fromLE M = m.maxTowers := by rw [← hM]; exact Py.fromLE_toLE _ 4 (by omega)
  unfold eptMapUnpack
  simp only [List.append_assoc, List.cons_append, List.nil_append]
  -- the fixed 32-octet prefix: referent (8), object uuid (16), referent (8)
  have s1 : Py.sliceN (1 :: 0 :: 0 :: 0 :: 0 :: 0 :: 0 :: 0 :: (O ++ (2 :: 0 :: 0 :: 0 :: 0 :: 0 :: 0 :: 0 :: (L8 ++ (L4 ++ (N ++ (bs.flatten ++ (Z ++ (eh ++ M))))))))) 8 24 = O := by
    slices0 [lO]
  have s2 : (1 :: 0 :: 0 :: 0 :: 0 :: 0 :: 0 :: 0 :: (O ++ (2 :: 0 :: 0 :: 0 :: 0 :: 0 :: 0 :: 0 :: (L8 ++ (L4 ++ (N ++ (bs.flatten ++ (Z ++ (eh ++ M))))))))).drop 32
      = L8 ++ (L4 ++ (N ++ (bs.flatten ++ (Z ++ (eh ++ M))))) := by
    slices0 [lO]
  simp only [s1, s2]
  have s3 : Py.sliceN (L8 ++ (L4 ++ (N ++ (bs.flatten ++ (Z ++ (eh ++ M)))))) 0 8 = L8 := by slices0 [l8]
  have s4 : Py.sliceN (L8 ++ (L4 ++ (N ++ (bs.flatten ++ (Z ++ (eh ++ M)))))) 12 14 = N := by slices0 [l8, l4, lN]
  have s5 : (L8 ++ (L4 ++ (N ++ (bs.flatten ++ (Z ++ (eh ++ M)))))).drop 14 = bs.flatten ++ (Z ++ (eh ++ M)) := by slices0 [l8, l4, lN]
  have hobj : (if O = Py.zeros 16 then (pure none : R (Option Bytes)) else (uuidOf O).map some) = .ok m.obj := by
    cases ho : m.obj with
    | none => rw [ho] at hO; simp at hO; simp [← hO, pure, Except.pure]
    | some u =>
      rw [ho] at hO w1; simp at hO; subst hO
      simp [w1.2, uuidOf, w1.1, Except.map]
  have hd : (Z ++ (eh ++ M)).drop (Py.negMod ((N ++ bs.flatten).length + 4) 8) = eh ++ M := by rw [← lZ, List.drop_left]
  have s6 : Py.sliceN (eh ++ M) 20 24 = M := by
    have := Py.mid' eh M [] 20 24 hel (by simp [lM])
    simpa [Py.sliceN] using this
  simp only [s3, s4, s5, v8, vN, hfu, hd, heu M, s6, vM, bind, Except.bind, pure, Except.pure] at hobj ⊢
  rw [hobj]

end DpapiNg.C18
