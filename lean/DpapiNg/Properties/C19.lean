/-
  C19 — every encryption uses fresh CEK, nonce and key-identifier randomness.
  In the model the randomness of one protect call is an explicit triple of draws; the theorems say
  the blob is a function of exactly those draws in exactly these places, so distinct draws give
  distinct (key, nonce) pairs, key identifiers and blobs.  That successive `os.urandom` draws are
  distinct is a premise (probability, not logic).
-/
import DpapiNg.Proofs.ClientCore
namespace DpapiNg.C19
open DpapiNg DpapiNg.Gkdi DpapiNg.Blob DpapiNg.Client

/-- the blob carries the second draw as its GCM nonce, the wrap of the first draw as its encrypted
    CEK, and the content is encrypted under exactly (first draw, second draw) -/
theorem protect_uses_draws (C : Crypto) (data : Bytes) (key : Envelope) (sid : Bytes) (d : Draws) (b : Blob)
    (hiv : d.iv.length < 2 ^ 32) (henc : encryptBlobValue C data key sid d = .ok b) :
    gcmIv b.encContentParams = .ok d.iv ∧
    (∃ kek kid, newKek C key d.kekRnd = .ok (kek, kid) ∧ b.keyId = kid ∧ C.keyWrap kek d.cek = .ok b.encCek) ∧
    C.gcmEncrypt d.cek d.iv data = .ok b.encContent := blob_carries_draws C data key sid d b hiv henc

/-- nonce mode: the key identifier's key_info is the third draw -/
theorem keyInfo_is_draw (C : Crypto) (data : Bytes) (key : Envelope) (sid : Bytes) (d : Draws) (b : Blob)
    (hiv : d.iv.length < 2 ^ 32) (hpub : key.isPublicKey = false) (henc : encryptBlobValue C data key sid d = .ok b) :
    b.keyId.keyInfo = d.kekRnd := by
  obtain ⟨_, ⟨kek, kid, hn, hk, _⟩, _⟩ := blob_carries_draws C data key sid d b hiv henc
  rw [hk]; exact newKek_nonce_keyInfo C key d.kekRnd kek kid hpub hn

/-- two protect calls whose GCM nonces differ produce different blobs (even for identical arguments) -/
theorem distinct_nonce_distinct_blob (C : Crypto) (data data' : Bytes) (key key' : Envelope) (sid sid' : Bytes) (d d' : Draws) (b b' : Blob)
    (hiv : d.iv.length < 2 ^ 32) (hiv' : d'.iv.length < 2 ^ 32) (hne : d.iv ≠ d'.iv)
    (h : encryptBlobValue C data key sid d = .ok b) (h' : encryptBlobValue C data' key' sid' d' = .ok b') : b ≠ b' := by
  intro e
  have h1 := (blob_carries_draws C data key sid d b hiv h).1
  have h2 := (blob_carries_draws C data' key' sid' d' b' hiv' h').1
  rw [e, h2] at h1
  exact hne (Except.ok.inj h1).symm

/-- … and likewise when the key-identifier nonces differ (nonce mode) -/
theorem distinct_keyInfo_distinct_blob (C : Crypto) (data data' : Bytes) (key key' : Envelope) (sid sid' : Bytes) (d d' : Draws) (b b' : Blob)
    (hiv : d.iv.length < 2 ^ 32) (hiv' : d'.iv.length < 2 ^ 32) (hp : key.isPublicKey = false) (hp' : key'.isPublicKey = false)
    (hne : d.kekRnd ≠ d'.kekRnd)
    (h : encryptBlobValue C data key sid d = .ok b) (h' : encryptBlobValue C data' key' sid' d' = .ok b') : b.keyId ≠ b'.keyId := by
  intro e
  have h1 := keyInfo_is_draw C data key sid d b hiv hp h
  have h2 := keyInfo_is_draw C data' key' sid' d' b' hiv' hp' h'
  rw [e, h2] at h1
  exact hne h1.symm

/-- history level: a sequence of protect calls fed from a draw stream `src` uses draws 3k, 3k+1, 3k+2
    for the k-th call; if the stream never repeats, all CEKs, all nonces and all key-identifier
    nonces are pairwise distinct, so no (key, nonce) pair is ever reused -/
def drawsAt (src : Nat → Bytes) (k : Nat) : Draws := ⟨src (3 * k), src (3 * k + 1), src (3 * k + 2)⟩

theorem pairwise_distinct (src : Nat → Bytes) (hinj : ∀ i j, src i = src j → i = j) (k k' : Nat) (hk : k ≠ k') :
    (drawsAt src k).cek ≠ (drawsAt src k').cek ∧ (drawsAt src k).iv ≠ (drawsAt src k').iv ∧
    (drawsAt src k).kekRnd ≠ (drawsAt src k').kekRnd ∧
    ((drawsAt src k).cek, (drawsAt src k).iv) ≠ ((drawsAt src k').cek, (drawsAt src k').iv) := by
  refine ⟨?_, ?_, ?_, ?_⟩
  · intro h; have := hinj _ _ h; omega
  · intro h; have := hinj _ _ h; omega
  · intro h; have := hinj _ _ h; omega
  · intro h; have := hinj _ _ (congrArg Prod.fst h); omega

end DpapiNg.C19
