/-
  C20 — DC discovery asks the right SRV name and picks the best record.
-/
import DpapiNg.Model.Dns
namespace DpapiNg.C20
open DpapiNg.Dns

theorem le_trans' (a b c : Srv) : le a b → le b c → le a c := by
  simp only [le, Bool.or_eq_true, decide_eq_true_eq, Bool.and_eq_true]; omega

theorem le_total (a b : Srv) : (le a b || le b a) = true := by
  simp only [le, Bool.or_eq_true, decide_eq_true_eq, Bool.and_eq_true]; omega

/-- The query name is the SRV prefix, followed by `.domain` exactly when a non-empty domain is given. -/
theorem query_name (d : Bytes) (hd : d ≠ []) :
    queryName (some d) = prefix_ ++ [46] ++ d ∧ queryName none = prefix_ ∧ queryName (some []) = prefix_ := by
  simp [queryName, hd]

/-- For every non-empty answer list the result is one of the (stripped) records, has the lowest
    priority and, among those with that priority, the highest weight. -/
theorem pick_best (l : List Srv) (h : l ≠ []) :
    ∃ r ∈ l, pick l = .ok (strip r) ∧
      ∀ x ∈ l, r.priority ≤ x.priority ∧ (x.priority = r.priority → x.weight ≤ r.weight) := by
  unfold pick
  have hs := List.pairwise_mergeSort le_trans' le_total (l.map strip)
  have hmem : ∀ a, a ∈ (l.map strip).mergeSort le ↔ a ∈ l.map strip := fun a => List.mem_mergeSort
  have hlen : ((l.map strip).mergeSort le).length = l.length := by simp
  generalize (l.map strip).mergeSort le = s at *
  cases s with
  | nil => simp at hlen; exact absurd hlen.symm (by simpa using h)
  | cons r0 rest =>
    have hr0 : r0 ∈ l.map strip := (hmem r0).1 (by simp)
    obtain ⟨r, hr, hrs⟩ := List.mem_map.1 hr0
    refine ⟨r, hr, by simp [hrs], ?_⟩
    intro x hx
    have hx' : strip x ∈ r0 :: rest := (hmem _).2 (List.mem_map.2 ⟨x, hx, rfl⟩)
    have hp : r0.priority = r.priority ∧ r0.weight = r.weight := by rw [← hrs]; simp [strip]
    rcases List.mem_cons.1 hx' with he | hin
    · have : (strip x).priority = r0.priority ∧ (strip x).weight = r0.weight := by rw [he]; simp
      simp only [strip] at this; omega
    · have := List.rel_of_pairwise_cons hs hin
      have e1 : (strip x).priority = x.priority := rfl
      have e2 : (strip x).weight = x.weight := rfl
      simp only [le, Bool.or_eq_true, decide_eq_true_eq, Bool.and_eq_true, e1, e2] at this
      omega

/-- Order independence: any permutation of the answers yields a record with the same
    (priority, weight) — so "best" does not depend on the order the resolver returns. -/
theorem pick_perm (l₁ l₂ : List Srv) (hp : l₁.Perm l₂) (h : l₁ ≠ []) :
    ∃ r₁ r₂, pick l₁ = .ok r₁ ∧ pick l₂ = .ok r₂ ∧ r₁.priority = r₂.priority ∧ r₁.weight = r₂.weight := by
  have h2 : l₂ ≠ [] := by intro e; subst e; exact h (List.Perm.eq_nil hp)
  obtain ⟨a, ha, hpa, hma⟩ := pick_best l₁ h
  obtain ⟨b, hb, hpb, hmb⟩ := pick_best l₂ h2
  refine ⟨strip a, strip b, hpa, hpb, ?_⟩
  have hab := hma b (hp.mem_iff.2 hb)
  have hba := hmb a (hp.mem_iff.1 ha)
  simp only [strip]; omega

/-- Only the target changes, and only by losing trailing dots. -/
theorem strip_target (r : Srv) :
    (strip r).port = r.port ∧ (strip r).weight = r.weight ∧ (strip r).priority = r.priority ∧
    (strip r).target = Py.rstrip 46 r.target := by simp [strip]

theorem rstrip_dot (s : Bytes) (h : s.getLast? ≠ some 46) : Py.rstrip 46 (s ++ [46]) = s ∧ Py.rstrip 46 s = s := by
  have key : Py.rstrip 46 s = s := by
    unfold Py.rstrip
    cases hs : s.reverse with
    | nil => simp at hs; simp [hs]
    | cons x xs =>
      have : s.getLast? = some x := by
        have := congrArg List.head? hs; simpa [List.head?_reverse] using this
      have hx : ¬ x = 46 := by intro e; rw [this, e] at h; exact h rfl
      simp only [List.dropWhile, hx, decide_false]
      rw [← hs]; simp
  refine ⟨?_, key⟩
  unfold Py.rstrip at key ⊢
  simp only [List.reverse_append, List.reverse_singleton, List.singleton_append, List.dropWhile, decide_true]
  exact key

/-- An empty answer is an error, not a default record. -/
theorem pick_empty : pick [] = .error .indexError := by simp [pick]

-- non-vacuity: the only hypothesis is a non-empty answer list; on a concrete three-record list the
-- theorem pins the (priority, weight) of the result (the driver executes `pick` on such lists)
example : ∃ r, pick [⟨[97,46], 389, 1, 1⟩, ⟨[98,46], 389, 5, 0⟩, ⟨[99], 389, 2, 0⟩] = .ok (strip r) ∧ r.priority = 0 ∧ r.weight = 5 := by
  obtain ⟨r, hr, hp, hm⟩ := pick_best [⟨[97,46], 389, 1, 1⟩, ⟨[98,46], 389, 5, 0⟩, ⟨[99], 389, 2, 0⟩] (by simp)
  refine ⟨r, hp, ?_⟩
  have h1 := hm ⟨[98,46], 389, 5, 0⟩ (by simp)
  have h2 := hm ⟨[99], 389, 2, 0⟩ (by simp)
  simp only [List.mem_cons, List.mem_nil_iff, or_false] at hr
  rcases hr with rfl | rfl | rfl <;> simp_all

end DpapiNg.C20
