/-
  Specification side of C06: a DER value tree with the canonical (minimal) encoder of X.690, and the
  RFC 5652 ContentInfo / EnvelopedData / KEKRecipientInfo tree Windows' NCryptProtectSecret emits
  for a DPAPI-NG blob.  Written from the standards, independently of the code's writer structure.
-/
import DpapiNg.Proofs.Asn1Oid
import DpapiNg.Model.Blob
namespace DpapiNg.Spec.Cms
open DpapiNg DpapiNg.Asn1 DpapiNg.Blob

inductive Der where
  | prim (t : Tag) (c : Bytes)
  | cons (t : Tag) (kids : List Der)
  | raw (b : Bytes)                 -- already-encoded DER supplied by the caller (algorithm parameters)

mutual
/-- DER: identifier octets, minimal definite length, contents (`tlv` is exactly that: see C07) -/
def Der.encode : Der → Bytes
  | .prim t c => tlv t c
  | .cons t kids => tlv t (encodeList kids)
  | .raw b => b
def encodeList : List Der → Bytes
  | [] => []
  | d :: ds => d.encode ++ encodeList ds
end

def seq (kids : List Der) : Der := .cons tSEQ kids
def oidNode (a b : Nat) (rest : List Nat) : Der := .prim tOID (oidContent a b rest)
def intNode (v : Int) : Der := .prim tINTEGER (packIntegerContent v)
def optRaw (p : Option Bytes) : List Der := if truthy p then [.raw (orEmpty p)] else []

/-- ProtectionDescriptor: SEQ { OID sid-protector, SEQ { SEQ { SEQ { UTF8 "SID", UTF8 sid } } } } -/
def protDescTree (sid : Bytes) : Der :=
  seq [oidNode 1 3 [6, 1, 4, 1, 311, 74, 1, 1], seq [seq [seq [.prim tUTF8 utf8SID, .prim tUTF8 sid]]]]

/-- ContentInfo { envelopedData, [0] EnvelopedData { version 2, SET { [2] KEKRecipientInfo { version 4,
    KEKIdentifier { keyIdentifier, OtherKeyAttribute { microsoft-software, protection descriptor } },
    keyEncryptionAlgorithm, encryptedKey } }, EncryptedContentInfo { data, contentEncryptionAlgorithm, [0] content? } } } -/
def blobTree (kid : Bytes) (b : Blob) (a1 b1 : Nat) (r1 : List Nat) (a2 b2 : Nat) (r2 : List Nat) (inEnvelope : Bool) : Der :=
  seq [oidNode 1 2 [840, 113549, 1, 7, 3],
    .cons (ctx 0 true) [
      seq [intNode 2,
        .cons tSET [
          .cons (ctx 2 true) [intNode 4,
            seq [.prim tOCTET kid, seq [oidNode 1 3 [6, 1, 4, 1, 311, 74, 1], protDescTree b.sid]],
            seq (oidNode a1 b1 r1 :: optRaw b.encCekParams),
            .prim tOCTET b.encCek]],
        seq ([oidNode 1 2 [840, 113549, 1, 7, 1], seq (oidNode a2 b2 r2 :: optRaw b.encContentParams)]
          ++ (if inEnvelope ∧ b.encContent ≠ [] then [.prim (ctx 0 false) b.encContent] else []))]]]

end DpapiNg.Spec.Cms
