/-
  Independent MS-DTYP parser (2.4.2.2 SID, 2.4.4.2 ACCESS_ALLOWED_ACE, 2.4.5 ACL,
  2.4.6 SECURITY_DESCRIPTOR self-relative), written from the specification, not from the code.
-/
import DpapiNg.Model.SecDesc
namespace DpapiNg.Spec.Dtyp
open DpapiNg DpapiNg.SecDesc

/-- read `n` little-endian 32-bit sub-authorities -/
def readSubs : Nat → Bytes → Option (List Nat × Bytes)
  | 0, b => some ([], b)
  | n + 1, a :: b :: c :: d :: rest =>
    (readSubs n rest).map fun (xs, r) => (Py.fromLE [a, b, c, d] :: xs, r)
  | _ + 1, _ => none

/-- SID: Revision(1) SubAuthorityCount(1) IdentifierAuthority(6, big-endian) SubAuthority(4·n, LE) -/
def parseSid : Bytes → Option (Sid × Bytes)
  | rev :: n :: a0 :: a1 :: a2 :: a3 :: a4 :: a5 :: rest =>
    (readSubs n rest).map fun (subs, r) => (⟨rev, Py.fromBE [a0, a1, a2, a3, a4, a5], subs⟩, r)
  | _ => none

structure Ace where
  aceType : Nat
  flags : Nat
  mask : Nat
  sid : Sid
  deriving DecidableEq, Repr

/-- ACE header: AceType(1) AceFlags(1) AceSize(2 LE); ACCESS_ALLOWED_ACE: Mask(4 LE) Sid -/
def parseAce : Bytes → Option (Ace × Bytes)
  | t :: f :: s0 :: s1 :: m0 :: m1 :: m2 :: m3 :: rest =>
    match parseSid rest with
    | some (sid, r) =>
      -- AceSize must cover exactly header + mask + SID
      if Py.fromLE [s0, s1] = 8 + (rest.length - r.length) then some (⟨t, f, Py.fromLE [m0, m1, m2, m3], sid⟩, r) else none
    | none => none
  | _ => none

def parseAces : Nat → Bytes → Option (List Ace × Bytes)
  | 0, b => some ([], b)
  | n + 1, b =>
    match parseAce b with
    | some (a, r) => (parseAces n r).map fun (as, r') => (a :: as, r')
    | none => none

/-- ACL: AclRevision(1) Sbz1(1) AclSize(2) AceCount(2) Sbz2(2) ACEs; returns the ACEs and the rest -/
def parseAcl : Bytes → Option (List Ace × Bytes)
  | rev :: sbz1 :: z0 :: z1 :: c0 :: c1 :: s0 :: s1 :: rest =>
    if rev ≠ 2 ∨ sbz1 ≠ 0 ∨ s0 ≠ 0 ∨ s1 ≠ 0 then none else
    match parseAces (Py.fromLE [c0, c1]) rest with
    | some (aces, r) => if Py.fromLE [z0, z1] = 8 + (rest.length - r.length) then some (aces, r) else none
    | none => none
  | _ => none

structure Sd where
  control : Nat
  owner : Sid
  group : Sid
  sacl : Option (List Ace)
  dacl : Option (List Ace)
  deriving DecidableEq, Repr

/-- self-relative SECURITY_DESCRIPTOR: Revision(1)=1 Sbz1(1) Control(2) OffsetOwner(4) OffsetGroup(4)
    OffsetSacl(4) OffsetDacl(4); an offset of 0 means absent; SACL/DACL present bits must agree. -/
def parseSd (b : Bytes) : Option Sd :=
  match b with
  | 1 :: 0 :: c0 :: c1 :: o0 :: o1 :: o2 :: o3 :: g0 :: g1 :: g2 :: g3 :: s0 :: s1 :: s2 :: s3 :: d0 :: d1 :: d2 :: d3 :: _ =>
    let control := Py.fromLE [c0, c1]
    let oOff := Py.fromLE [o0, o1, o2, o3]
    let gOff := Py.fromLE [g0, g1, g2, g3]
    let sOff := Py.fromLE [s0, s1, s2, s3]
    let dOff := Py.fromLE [d0, d1, d2, d3]
    if control / 0x8000 % 2 ≠ 1 then none                 -- SE_SELF_RELATIVE
    else if (control / 4 % 2 = 1) ≠ (dOff ≠ 0) then none   -- SE_DACL_PRESENT ⇔ offset
    else if (control / 16 % 2 = 1) ≠ (sOff ≠ 0) then none  -- SE_SACL_PRESENT ⇔ offset
    else if oOff < 20 ∨ gOff < 20 then none
    else
      match parseSid (b.drop oOff), parseSid (b.drop gOff) with
      | some (owner, _), some (group, _) =>
        let dacl := if dOff = 0 then some none else (parseAcl (b.drop dOff)).map (fun x => some x.1)
        let sacl := if sOff = 0 then some none else (parseAcl (b.drop sOff)).map (fun x => some x.1)
        match dacl, sacl with
        | some d, some s => some ⟨control, owner, group, s, d⟩
        | _, _ => none
      | _, _ => none
  | _ => none

end DpapiNg.Spec.Dtyp
