/-
  modeldrv: line-protocol driver over the executable model.  One op per input line, one
  result per output line.  Integers are decimal, byte strings hex ("-" = empty).
  The driver executes exactly the definitions the theorems are about.
-/
import DpapiNg.Model.Py
import DpapiNg.Model.Time
import DpapiNg.Drv.Common
import DpapiNg.Drv.Asn1
import DpapiNg.Drv.Dns
import DpapiNg.Drv.SecDesc
import DpapiNg.Drv.Gkdi
import DpapiNg.Drv.Client
import DpapiNg.Drv.Rpc
open DpapiNg DpapiNg.Drv

def dispatch (toks : List String) : String :=
  match toks with
  | ["truediv", a, b] =>
    match nat? a, nat? b with
    | some a, some b => s!"ok {Py.trueDivTrunc a b}"
    | _, _ => "bad-op"
  | ["timeidx", ns] =>
    match nat? ns with
    | some ns =>
      let t := Time.currentTime ns
      s!"ok {Time.l0 t} {Time.l1 t} {Time.l2 t}"
    | none => "bad-op"
  | ["slice", h, i, j] =>
    match parseHex h, int? i, int? j with
    | some b, some i, some j => "ok " ++ toHex (Py.slice b i j)
    | _, _, _ => "bad-op"
  | ["tobytes", n, k, order, signed] =>
    match int? n, nat? k with
    | some n, some k =>
      let r := match order, signed with
        | "little", "0" => Py.toBytesLE n k
        | "big", "0" => Py.toBytesBE n k
        | "little", "1" => Py.toBytesLESigned n k
        | _, _ => .error .other
      showR (r.map toHex)
    | _, _ => "bad-op"
  | ["frombytes", h, order, signed] =>
    match parseHex h with
    | some b =>
      match order, signed with
      | "little", "0" => s!"ok {Py.fromLE b}"
      | "big", "0" => s!"ok {Py.fromBE b}"
      | "little", "1" => s!"ok {Py.fromLESigned b}"
      | _, _ => "bad-op"
    | none => "bad-op"
  | ["negmod", n, m] =>
    match nat? n, nat? m with
    | some n, some m => s!"ok {Py.negMod n m}"
    | _, _ => "bad-op"
  | ["powmod", b, e, m] =>
    match nat? b, nat? e, nat? m with
    | some b, some e, some m => s!"ok {Py.powMod b e m}"
    | _, _, _ => "bad-op"
  | _ =>
    match (dispatchAsn1 toks <|> dispatchDns toks <|> dispatchSecDesc toks <|> dispatchGkdi toks <|> dispatchClient toks <|> dispatchRpc toks) with
    | some r => r
    | none => "bad-op"

partial def loop (h : IO.FS.Stream) (out : IO.FS.Stream) : IO Unit := do
  let line ← h.getLine
  if line.isEmpty then return ()
  let toks := (line.trimAscii.toString.splitOn " ").filter (· ≠ "")
  out.putStrLn (dispatch toks)
  loop h out

def main : IO Unit := do
  let stdin ← IO.getStdin
  let stdout ← IO.getStdout
  loop stdin stdout
  stdout.flush
