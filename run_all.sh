#!/bin/sh
# run every check's quick (or $1) tier on the current tree; used before committing evidence
cd "$(dirname "$0")"
tier=${1:-quick}
rc=0
for p in C01 C02 C03 C04 C05 C06 C07 C08 C09 C10 C11 C12 C13 C14 C15 C16 C17 C18 C19 C20; do
  ./check $p --tier $tier | tail -1 || rc=1
done
exit $rc
