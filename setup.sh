#!/bin/sh
# Build the framework from files on disk only (offline): regenerate the kernel files from
# /repo's current source, then build the Lean library (model, proofs, property theorems,
# generated obligations) and the native model driver.
set -e
cd "$(dirname "$0")"
python3 harness/extract.py > /dev/null
cd lean
lake build 2>&1 | grep -v '^WARNING' | tail -5
mods=$(ls DpapiNg/Gen/*.lean 2>/dev/null | sed 's|/|.|g; s|\.lean$||')
[ -n "$mods" ] && lake build $mods 2>&1 | grep -v '^WARNING' | tail -3
exit 0
