-- Spike: C02 core theorem over an abstract KDF.  Throwaway.
variable {Key Ctx : Type}

structure Env (Key : Type) where
  l1 : Nat
  l2 : Nat
  l1Key : Key
  l2Key : Key

section
variable (kdf : Key → Ctx → Key) (c1 : Nat → Ctx) (c2 : Nat → Nat → Ctx)
-- c1 i = ctx(l0, i, -1);  c2 i j = ctx(l0, i, j)

/-- code: `while l1 != request: l1 -= 1; l1_key = kdf(l1_key, ctx(l1,-1))`, `n` = iterations -/
def walk1 (k : Key) (l1 : Nat) : Nat → Key
  | 0 => k
  | n+1 => walk1 (kdf k (c1 (l1-1))) (l1-1) n
def walk2 (k : Key) (l1 l2 : Nat) : Nat → Key
  | 0 => k
  | n+1 => walk2 (kdf k (c2 l1 (l2-1))) l1 (l2-1) n

/-- model of the repaired `compute_l2_key` -/
def computeL2 (env : Env Key) (r1 r2 : Nat) : Option Key :=
  if 31 < r1 ∨ 31 < r2 ∨ 31 < env.l1 ∨ 31 < env.l2 ∨ env.l1 < r1 ∨ (env.l1 = r1 ∧ env.l2 < r2) then none else
  let reseed0 := env.l2 = 31 ∨ env.l1 ≠ r1
  let l1 := if env.l2 ≠ 31 ∧ env.l1 ≠ r1 then env.l1 - 1 else env.l1
  let l1Key := walk1 kdf c1 env.l1Key l1 (l1 - r1)
  let reseed := reseed0 ∨ l1 ≠ r1
  let (l2, l2Key) := if reseed then (31, kdf l1Key (c2 r1 31)) else (env.l2, env.l2Key)
  some (walk2 kdf c2 l2Key r1 l2 (l2 - r2))

/-- spec chain -/
def K1 (k31 : Key) (i : Nat) : Key := walk1 kdf c1 k31 31 (31 - i)
def K2 (k31 : Key) (i j : Nat) : Key := walk2 kdf c2 (kdf (K1 kdf c1 k31 i) (c2 i 31)) i 31 (31 - j)

inductive Conforming (k31 : Key) : Env Key → Prop
  | atL2_31 (a : Nat) (k2 : Key) : a ≤ 31 → Conforming k31 ⟨a, 31, K1 kdf c1 k31 a, k2⟩            -- L2 key present or absent: ignored
  | below (a b : Nat) (k1 : Key) : a ≤ 31 → b < 31 → (0 < a → k1 = K1 kdf c1 k31 (a-1)) →
      Conforming k31 ⟨a, b, k1, K2 kdf c1 c2 k31 a b⟩

theorem walk1_add (k : Key) (l n m : Nat) :
    walk1 kdf c1 (walk1 kdf c1 k l n) (l - n) m = walk1 kdf c1 k l (n + m) := by
  induction n generalizing k l with
  | zero => simp [walk1]
  | succ n ih =>
    simp only [walk1]
    have : l - (n+1) = (l-1) - n := by omega
    rw [this, ih]
    have : n + 1 + m = (n + m) + 1 := by omega
    rw [this]; simp [walk1]
theorem walk2_add (k : Key) (i l n m : Nat) :
    walk2 kdf c2 (walk2 kdf c2 k i l n) i (l - n) m = walk2 kdf c2 k i l (n + m) := by
  induction n generalizing k l with
  | zero => simp [walk2]
  | succ n ih =>
    simp only [walk2]
    have : l - (n+1) = (l-1) - n := by omega
    rw [this, ih]
    have : n + 1 + m = (n + m) + 1 := by omega
    rw [this]; simp [walk2]

theorem walk1_K1 (k31 : Key) (a n : Nat) (ha : a ≤ 31) (hn : n ≤ a) :
    walk1 kdf c1 (K1 kdf c1 k31 a) a n = K1 kdf c1 k31 (a - n) := by
  unfold K1
  have h := walk1_add kdf c1 k31 31 (31 - a) n
  have e : 31 - (31 - a) = a := by omega
  rw [e] at h; rw [h]; congr 1; omega

theorem walk2_K2 (k31 : Key) (i b n : Nat) (hb : b ≤ 31) (hn : n ≤ b) :
    walk2 kdf c2 (K2 kdf c1 c2 k31 i b) i b n = K2 kdf c1 c2 k31 i (b - n) := by
  unfold K2
  have h := walk2_add kdf c2 (kdf (K1 kdf c1 k31 i) (c2 i 31)) i 31 (31 - b) n
  have e : 31 - (31 - b) = b := by omega
  rw [e] at h; rw [h]; congr 1; omega

theorem computeL2_correct (k31 : Key) (env : Env Key) (h : Conforming kdf c1 c2 k31 env)
    (r1 r2 : Nat) (h1 : r1 ≤ 31) (h2 : r2 ≤ 31) (hc : r1 < env.l1 ∨ (r1 = env.l1 ∧ r2 ≤ env.l2)) :
    computeL2 kdf c1 c2 env r1 r2 = some (K2 kdf c1 c2 k31 r1 r2) := by
  cases h with
  | atL2_31 a k2 ha =>
    simp only at hc
    unfold computeL2
    have hg : ¬ (31 < r1 ∨ 31 < r2 ∨ 31 < a ∨ 31 < 31 ∨ a < r1 ∨ (a = r1 ∧ 31 < r2)) := by omega
    simp only [hg, if_false, true_or, if_true, ne_eq, not_true_eq_false, false_and]
    rw [walk1_K1 kdf c1 k31 a (a - r1) ha (by omega)]
    have : a - (a - r1) = r1 := by omega
    rw [this]; rfl
  | below a b k1 ha hb hk =>
    simp only at hc
    unfold computeL2
    have hg : ¬ (31 < r1 ∨ 31 < r2 ∨ 31 < a ∨ 31 < b ∨ a < r1 ∨ (a = r1 ∧ b < r2)) := by omega
    simp only [hg, if_false]
    by_cases e : a = r1
    · subst e
      have hb31 : b ≠ 31 := by omega
      simp [hb31, walk1]
      have := walk2_K2 kdf c1 c2 k31 a b (b - r2) (by omega) (by omega)
      rw [this]; congr 1; omega
    · have hb31 : b ≠ 31 := by omega
      have hpos : 0 < a := by omega
      simp [hb31, e]
      rw [hk hpos, walk1_K1 kdf c1 k31 (a-1) (a - 1 - r1) (by omega) (by omega)]
      have : a - 1 - (a - 1 - r1) = r1 := by omega
      rw [this]
      have hr : (a - 1 ≠ r1 ∨ True) := Or.inr trivial
      simp [K2]
end
#print axioms computeL2_correct
