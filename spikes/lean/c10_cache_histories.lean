-- Spike: C10 — KeyCache as a state machine; invariant and cover-monotonicity over every history.
-- Envelopes are abstract (position + payload); `Genuine k e` stands for `Conforming` of C02 for cache key k = (rk, sd, l0).

structure Pos where
  l1 : Nat
  l2 : Nat
deriving DecidableEq

def Pos.le (p q : Pos) : Prop := p.l1 < q.l1 ∨ (p.l1 = q.l1 ∧ p.l2 ≤ q.l2)
def Pos.lt (p q : Pos) : Prop := p.l1 < q.l1 ∨ (p.l1 = q.l1 ∧ p.l2 < q.l2)
instance (p q : Pos) : Decidable (Pos.le p q) := by unfold Pos.le; exact inferInstance
instance (p q : Pos) : Decidable (Pos.lt p q) := by unfold Pos.lt; exact inferInstance
def Pos.top : Pos := ⟨31, 31⟩
def Pos.InRange (p : Pos) : Prop := p.l1 ≤ 31 ∧ p.l2 ≤ 31

theorem Pos.le_trans {a b c : Pos} (h1 : Pos.le a b) (h2 : Pos.le b c) : Pos.le a c := by
  unfold Pos.le at *; omega
theorem Pos.le_of_lt {a b : Pos} (h : Pos.lt a b) : Pos.le a b := by
  unfold Pos.le; unfold Pos.lt at h; omega
theorem Pos.le_top {p : Pos} (h : p.InRange) : Pos.le p Pos.top := by
  unfold Pos.le Pos.top; unfold Pos.InRange at h; simp only; omega

section
variable {K R P : Type} [DecidableEq K] [DecidableEq R]   -- K = (rk, sd, l0);  R = root key id;  P = envelope payload

structure Env (P : Type) where
  pos : Pos
  payload : P

structure State (K R P : Type) where
  roots : R → Option P            -- loaded root keys
  seeds : K → Option (Env P)      -- best known envelope per (rk, sd, l0)

variable (rkOf : K → R) (rootEnv : P → K → P)   -- payload of the envelope `_get_key` derives from a root key

def setSeed (s : State K R P) (k : K) (e : Env P) : State K R P :=
  { s with seeds := fun k' => if k' = k then some e else s.seeds k' }

/-- repaired `KeyCache._get_key` -/
def getKey (s : State K R P) (k : K) (p : Pos) : Option (Env P) × State K R P :=
  match s.seeds k with
  | some e => if Pos.le p e.pos then (some e, s) else
      match s.roots (rkOf k) with
      | some r => let g : Env P := ⟨Pos.top, rootEnv r k⟩; (some g, setSeed s k g)
      | none => (none, s)
  | none =>
      match s.roots (rkOf k) with
      | some r => let g : Env P := ⟨Pos.top, rootEnv r k⟩; (some g, setSeed s k g)
      | none => (none, s)

/-- `KeyCache._store_key` -/
def storeKey (s : State K R P) (k : K) (e : Env P) : State K R P :=
  match s.seeds k with
  | none => setSeed s k e
  | some ex => if Pos.lt ex.pos e.pos then setSeed s k e else s

def loadKey (s : State K R P) (r : R) (p : P) : State K R P :=
  { s with roots := fun r' => if r' = r then some p else s.roots r' }

inductive Op (K R P : Type) where
  | load (r : R) (p : P)
  | get (k : K) (p : Pos)
  | store (k : K) (e : Env P)        -- an envelope obtained from the DC for key k

def step (s : State K R P) : Op K R P → State K R P
  | .load r p => loadKey s r p
  | .get k p => (getKey rkOf rootEnv s k p).2
  | .store k e => storeKey s k e

variable (Genuine : K → Env P → Prop) (RootOk : R → P → Prop)
variable (hroot : ∀ k r, RootOk (rkOf k) r → Genuine k ⟨Pos.top, rootEnv r k⟩)

def CInv (s : State K R P) : Prop :=
  (∀ k e, s.seeds k = some e → Genuine k e ∧ e.pos.InRange) ∧ (∀ r p, s.roots r = some p → RootOk r p)

/-- an operation is admissible if what comes from outside is what a conforming DC / a real root key would provide -/
def Op.Ok : Op K R P → Prop
  | .load r p => RootOk r p
  | .get _ _ => True
  | .store k e => Genuine k e ∧ e.pos.InRange

include hroot in
theorem inv_step (s : State K R P) (op : Op K R P) (h : CInv Genuine RootOk s) (hop : Op.Ok Genuine RootOk op) :
    CInv Genuine RootOk (step rkOf rootEnv s op) := by
  obtain ⟨hs, hr⟩ := h
  cases op with
  | load r p =>
    refine ⟨hs, ?_⟩
    intro r' p' h'
    simp only [step, loadKey] at h'
    split at h'
    · cases h'; rename_i e; subst e; exact hop
    · exact hr r' p' h'
  | get k p =>
    have hset : ∀ r, s.roots (rkOf k) = some r →
        CInv Genuine RootOk (setSeed s k ⟨Pos.top, rootEnv r k⟩) := by
      intro r hrr
      refine ⟨?_, hr⟩
      intro k' e' h'
      simp only [setSeed] at h'
      split at h'
      · cases h'; rename_i e; subst e
        exact ⟨hroot _ r (hr _ r hrr), by simp [Pos.InRange, Pos.top]⟩
      · exact hs k' e' h'
    simp only [step, getKey]
    split
    · split
      · exact ⟨hs, hr⟩
      · split
        · rename_i r hrr; exact hset r hrr
        · exact ⟨hs, hr⟩
    · split
      · rename_i r hrr; exact hset r hrr
      · exact ⟨hs, hr⟩
  | store k e =>
    have hset : CInv Genuine RootOk (setSeed s k e) := by
      refine ⟨?_, hr⟩
      intro k' e' h'
      simp only [setSeed] at h'
      split at h'
      · cases h'; rename_i ek; subst ek; exact hop
      · exact hs k' e' h'
    simp only [step, storeKey]
    split
    · exact hset
    · split
      · exact hset
      · exact ⟨hs, hr⟩

include hroot in
/-- whatever `_get_key` returns covers the request and is genuine (this is what makes C02 applicable) -/
theorem get_covers (s : State K R P) (k : K) (p : Pos) (hp : p.InRange) (h : CInv Genuine RootOk s)
    (e : Env P) (hg : (getKey rkOf rootEnv s k p).1 = some e) : Pos.le p e.pos ∧ Genuine k e := by
  obtain ⟨hs, hr⟩ := h
  simp only [getKey] at hg
  split at hg
  · rename_i ex hex
    split at hg
    · rename_i hle; cases hg; exact ⟨hle, (hs k _ hex).1⟩
    · split at hg
      · rename_i r hrr; cases hg; exact ⟨Pos.le_top hp, hroot _ r (hr _ r hrr)⟩
      · cases hg
  · split at hg
    · rename_i r hrr; cases hg; exact ⟨Pos.le_top hp, hroot _ r (hr _ r hrr)⟩
    · cases hg

/-- position p of key k is covered: a cached envelope at or after p, or the root key is loaded -/
def Covers (s : State K R P) (k : K) (p : Pos) : Prop :=
  (∃ e, s.seeds k = some e ∧ Pos.le p e.pos) ∨ (s.roots (rkOf k)).isSome

theorem covers_step (s : State K R P) (op : Op K R P) (k : K) (p : Pos) (hp : p.InRange)
    (h : Covers rkOf s k p) : Covers rkOf (step rkOf rootEnv s op) k p := by
  cases op with
  | load r q =>
    rcases h with h | h
    · exact Or.inl h
    · right; simp only [step, loadKey]; split <;> simp_all
  | get k' p' =>
    have hset : ∀ g : Env P, g.pos = Pos.top → Covers rkOf (setSeed s k' g) k p := by
      intro g hgp
      rcases h with ⟨e, he, hle⟩ | h
      · left; simp only [setSeed]
        by_cases hk : k = k'
        · exact ⟨g, by simp [hk], by rw [hgp]; exact Pos.le_top hp⟩
        · exact ⟨e, by simp [hk, he], hle⟩
      · exact Or.inr h
    simp only [step, getKey]
    split
    · split
      · exact h
      · split
        · exact hset _ rfl
        · exact h
    · split
      · exact hset _ rfl
      · exact h
  | store k' e' =>
    have hset : (∀ ex, s.seeds k' = some ex → Pos.lt ex.pos e'.pos) → Covers rkOf (setSeed s k' e') k p := by
      intro hlater
      rcases h with ⟨e, he, hle⟩ | h
      · left; simp only [setSeed]
        by_cases hk : k = k'
        · subst hk
          exact ⟨e', by simp, Pos.le_trans hle (Pos.le_of_lt (hlater e he))⟩
        · exact ⟨e, by simp [hk, he], hle⟩
      · exact Or.inr h
    simp only [step, storeKey]
    split
    · rename_i hnone; exact hset (fun ex hex => by rw [hnone] at hex; cases hex)
    · rename_i ex hex
      split
      · rename_i hlt; exact hset (fun ex' hex' => by rw [hex] at hex'; cases hex'; exact hlt)
      · exact h

/-- every history: once covered, always covered -/
theorem covers_run (ops : List (Op K R P)) (s : State K R P) (k : K) (p : Pos) (hp : p.InRange)
    (h : Covers rkOf s k p) : Covers rkOf (ops.foldl (step rkOf rootEnv) s) k p := by
  induction ops generalizing s with
  | nil => exact h
  | cons op ops ih => exact ih _ (covers_step rkOf rootEnv s op k p hp h)

/-- … and a covered position never goes back to the DC -/
theorem no_repeat_rpc (s : State K R P) (k : K) (p : Pos) (h : Covers rkOf s k p) :
    ((getKey rkOf rootEnv s k p).1).isSome := by
  simp only [getKey]
  rcases h with ⟨e, he, hle⟩ | h
  · rw [he]; simp [hle]
  · split
    · split
      · rfl
      · split
        · rfl
        · rename_i hn; rw [hn] at h; cases h
    · split
      · rfl
      · rename_i hn; rw [hn] at h; cases h

include hroot in
theorem inv_run (ops : List (Op K R P)) (s : State K R P) (h : CInv Genuine RootOk s)
    (hops : ∀ op ∈ ops, Op.Ok Genuine RootOk op) : CInv Genuine RootOk (ops.foldl (step rkOf rootEnv) s) := by
  induction ops generalizing s with
  | nil => exact h
  | cons op ops ih =>
    exact ih _ (inv_step rkOf rootEnv Genuine RootOk hroot s op h (hops op (by simp)))
      (fun o ho => hops o (by simp [ho]))
end
#print axioms inv_run
#print axioms covers_run
#print axioms no_repeat_rpc
#print axioms get_covers
