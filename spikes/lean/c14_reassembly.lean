-- Spike: C14 — the repaired sync read loop returns the same bytes under every segmentation; EOF is an error.
abbrev Bytes := List UInt8

/-- Socket = pending non-empty chunks.  `recv(n)` returns the first min(n, |head|) bytes; [] is EOF.
    `readN n` = `while len(buf) < n: d = recv(n - len(buf)); if not d: raise; buf += d`.  Also returns #recv calls. -/
def readN : Nat → List Bytes → Option (Bytes × List Bytes × Nat)
  | 0, cs => some ([], cs, 0)
  | _+1, [] => none
  | n+1, c :: cs =>
    if c.length ≤ n+1 then
      (readN (n+1 - c.length) cs).map fun (d, r, k) => (c ++ d, r, k+1)
    else some (c.take (n+1), c.drop (n+1) :: cs, 1)

theorem split_le {c X data rest : Bytes} (h : c ++ X = data ++ rest) (hle : c.length ≤ data.length) :
    ∃ d', data = c ++ d' ∧ X = d' ++ rest := by
  rcases List.append_eq_append_iff.mp h with ⟨a', h1, h2⟩ | ⟨c', h1, h2⟩
  · exact ⟨a', h1, h2⟩
  · have : c'.length = 0 := by
      have := congrArg List.length h1; simp at this; omega
    have hc' : c' = [] := List.eq_nil_of_length_eq_zero this
    subst hc'
    exact ⟨[], by simpa using h1.symm, by simpa using h2.symm⟩

theorem split_gt {c X data rest : Bytes} (h : c ++ X = data ++ rest) (hgt : data.length < c.length) :
    ∃ c', c = data ++ c' ∧ rest = c' ++ X ∧ c' ≠ [] := by
  rcases List.append_eq_append_iff.mp h with ⟨a', h1, h2⟩ | ⟨c', h1, h2⟩
  · have := congrArg List.length h1; simp at this; omega
  · refine ⟨c', h1, h2, ?_⟩
    intro hc; subst hc; simp at h1; subst h1; omega

theorem readN_ok (n : Nat) (chunks : List Bytes) (data rest : Bytes)
    (hne : ∀ c ∈ chunks, c ≠ []) (hflat : chunks.flatten = data ++ rest) (hlen : data.length = n) :
    ∃ r k, readN n chunks = some (data, r, k) ∧ r.flatten = rest ∧ k ≤ chunks.length ∧ (∀ c ∈ r, c ≠ []) := by
  induction chunks generalizing n data with
  | nil =>
    simp at hflat
    obtain ⟨rfl, rfl⟩ := hflat
    simp at hlen; subst hlen
    exact ⟨[], 0, by simp [readN], by simp, by simp, by simp⟩
  | cons c cs ih =>
    cases n with
    | zero =>
      have : data = [] := List.eq_nil_of_length_eq_zero hlen
      subst this
      exact ⟨c :: cs, 0, by simp [readN], by simpa using hflat, by simp, hne⟩
    | succ n =>
      have hc : c ≠ [] := hne c (by simp)
      have hcs : ∀ x ∈ cs, x ≠ [] := fun x hx => hne x (by simp [hx])
      simp only [List.flatten_cons] at hflat
      simp only [readN]
      split
      · rename_i hle
        obtain ⟨d', hd, hX⟩ := split_le hflat (by omega)
        subst hd
        obtain ⟨r, k, h1, h2, h3, h4⟩ := ih (n + 1 - c.length) d' hcs hX (by simp at hlen; omega)
        exact ⟨r, k+1, by rw [h1]; rfl, h2, by simp; omega, h4⟩
      · rename_i hgt
        obtain ⟨c', hc', hrest, hc'ne⟩ := split_gt hflat (by omega)
        subst hc'
        refine ⟨c' :: cs, 1, ?_, by simp [hrest], by simp, ?_⟩
        · rw [← hlen, List.take_left', List.drop_left'] <;> rfl
        · intro x hx; simp at hx; rcases hx with rfl | hx
          · exact hc'ne
          · exact hcs x hx

theorem readN_eof (n : Nat) (chunks : List Bytes) (hne : ∀ c ∈ chunks, c ≠ [])
    (hshort : chunks.flatten.length < n) : readN n chunks = none := by
  induction chunks generalizing n with
  | nil => cases n with
    | zero => simp at hshort
    | succ n => rfl
  | cons c cs ih =>
    cases n with
    | zero => simp at hshort
    | succ n =>
      simp only [List.flatten_cons, List.length_append] at hshort
      simp only [readN]
      split
      · rw [ih (n + 1 - c.length) (fun x hx => hne x (by simp [hx])) (by omega)]; rfl
      · omega
#print axioms readN_ok
#print axioms readN_eof
