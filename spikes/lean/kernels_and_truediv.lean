def B : Nat := 360000000000
theorem l1_eq (t : Nat) : (t % (32*32*360000000000)) / (32*360000000000) = (t / (32*360000000000)) % 32 := by omega
theorem l2_eq (t : Nat) : (t % (32*360000000000)) / 360000000000 = (t / 360000000000) % 32 := by omega
theorem pad16 (n : Nat) : ((0 - (n:Int)) % 16).toNat = (16 - n % 16) % 16 := by omega
theorem pad_sum (n : Nat) : (n + ((0 - (n:Int)) % 16).toNat) % 16 = 0 := by omega
theorem epm_pad (L : Nat) : (12 + L + ((0 - ((L:Int)+4)) % 8).toNat) % 8 = 0 := by omega
-- exact model of CPython int/int true division then int(): round-half-even to 53 bits
def pyTrueDivTrunc (a b : Nat) : Nat :=
  -- value of correctly-rounded a/b as binary64, truncated to integer; assumes b>0, quotient < 2^1023
  if a = 0 then 0 else
  let q := a / b
  -- number of bits of integer part
  let bits := Nat.log2 (max q 1) + 1
  if bits ≥ 54 then
    let sh := bits - 53
    let m := a / (b * 2^sh)          -- floor(a/(b*2^sh)) has 53 bits
    let r := a % (b * 2^sh)
    let half := b * 2^sh
    let m' := if 2*r > half ∨ (2*r = half ∧ m % 2 = 1) then m+1 else m
    m' * 2^sh
  else
    let sh := 53 - bits
    let num := a * 2^sh
    let m := num / b
    let r := num % b
    let m' := if 2*r > b ∨ (2*r = b ∧ m % 2 = 1) then m+1 else m
    m' / 2^sh
#eval pyTrueDivTrunc (363*368640000000000 - 1) 368640000000000
#eval pyTrueDivTrunc (363*368640000000000 - 11) 368640000000000
#eval pyTrueDivTrunc (363*368640000000000 - 12) 368640000000000
theorem float_bug_witness : pyTrueDivTrunc (363*368640000000000 - 1) 368640000000000 ≠ (363*368640000000000 - 1) / 368640000000000 := by decide +kernel
#print axioms float_bug_witness
