-- Spike: nested value trees, shape-directed reader, round-trip by induction.  TLV simplified to a 1-byte tag and an
-- abstract length codec (encLen/decLen with its round-trip law as a section hypothesis) to isolate the recursion pattern.
abbrev Bytes := List UInt8

inductive V where
  | prim (tag : UInt8) (b : Bytes)
  | seq (tag : UInt8) (xs : List V)

inductive Shape where
  | prim (tag : UInt8)
  | seq (tag : UInt8) (xs : List Shape)

section
variable (encLen : Nat → Bytes) (decLen : Bytes → Option (Nat × Bytes))

mutual
def write : V → Bytes
  | .prim t b => t :: (encLen b.length ++ b)
  | .seq t xs => let body := writeAll xs; t :: (encLen body.length ++ body)
def writeAll : List V → Bytes
  | [] => []
  | x :: xs => write x ++ writeAll xs
end

mutual
def shapeOf : V → Shape
  | .prim t _ => .prim t
  | .seq t xs => .seq t (shapesOf xs)
def shapesOf : List V → List Shape
  | [] => []
  | x :: xs => shapeOf x :: shapesOf xs
end

def header (t : UInt8) (d : Bytes) : Option (Bytes × Bytes) :=
  match d with
  | [] => none
  | t' :: r => if t' ≠ t then none else
    match decLen r with
    | none => none
    | some (n, r') => if r'.length < n then none else some (r'.take n, r'.drop n)

mutual
def readV : Shape → Bytes → Option (V × Bytes)
  | .prim t, d => (header decLen t d).map fun (c, rest) => (V.prim t c, rest)
  | .seq t ss, d =>
    match header decLen t d with
    | none => none
    | some (c, rest) =>
      match readAll ss c with
      | some (vs, []) => some (V.seq t vs, rest)
      | _ => none
def readAll : List Shape → Bytes → Option (List V × Bytes)
  | [], d => some ([], d)
  | s :: ss, d =>
    match readV s d with
    | none => none
    | some (v, d') => (readAll ss d').map fun (vs, r) => (v :: vs, r)
end

theorem header_ok (hlen : ∀ n rest, decLen (encLen n ++ rest) = some (n, rest)) (t : UInt8) (c rest : Bytes) :
    header decLen t (t :: (encLen c.length ++ (c ++ rest))) = some (c, rest) := by
  simp [header, hlen]

mutual
theorem read_write (hlen : ∀ n rest, decLen (encLen n ++ rest) = some (n, rest)) (v : V) (rest : Bytes) :
    readV decLen (shapeOf v) (write encLen v ++ rest) = some (v, rest) := by
  cases v with
  | prim t b => simp [shapeOf, write, readV, header_ok encLen decLen hlen]
  | seq t xs =>
    have ih := readAll_writeAll hlen xs []
    simp only [List.append_nil] at ih
    simp [shapeOf, write, readV, header_ok encLen decLen hlen, ih]
theorem readAll_writeAll (hlen : ∀ n rest, decLen (encLen n ++ rest) = some (n, rest)) (vs : List V) (rest : Bytes) :
    readAll decLen (shapesOf vs) (writeAll encLen vs ++ rest) = some (vs, rest) := by
  cases vs with
  | nil => simp [shapesOf, writeAll, readAll]
  | cons x xs =>
    simp [shapesOf, writeAll, readAll, List.append_assoc, read_write hlen x, readAll_writeAll hlen xs]
end
end
#print axioms read_write
