inductive PyErr | valueError | indexError | notEnough deriving DecidableEq, Repr
def Deliberate : PyErr → Prop | .valueError => True | .notEnough => True | .indexError => False
instance : DecidablePred Deliberate := fun e => by cases e <;> simp [Deliberate] <;> infer_instance

def OnlyRaises (P : PyErr → Prop) (m : Except PyErr α) : Prop := ∀ e, m = .error e → P e
theorem OnlyRaises.pure {P} (a : α) : OnlyRaises P (Pure.pure a : Except PyErr α) := by
  intro e h; cases h
theorem OnlyRaises.ok {P} (a : α) : OnlyRaises P (Except.ok a : Except PyErr α) := by
  intro e h; cases h
theorem OnlyRaises.throw {P} {e : PyErr} (h : P e) : OnlyRaises P (throw e : Except PyErr α) := by
  intro e' h'; cases h'; exact h
theorem OnlyRaises.error {P} {e : PyErr} (h : P e) : OnlyRaises P (Except.error e : Except PyErr α) := by
  intro e' h'; cases h'; exact h
theorem OnlyRaises.bind {P} {m : Except PyErr α} {k : α → Except PyErr β}
    (hm : OnlyRaises P m) (hk : ∀ a, OnlyRaises P (k a)) : OnlyRaises P (m >>= k) := by
  intro e h
  cases m with
  | error e' => simp [Bind.bind, Except.bind] at h; subst h; exact hm _ rfl
  | ok a => exact hk a e h
theorem OnlyRaises.ite {P} {c : Prop} [Decidable c] {a b : Except PyErr α}
    (ha : OnlyRaises P a) (hb : OnlyRaises P b) : OnlyRaises P (if c then a else b) := by
  split <;> assumption

def hd (l : List UInt8) : Except PyErr UInt8 := match l with | [] => .error .valueError | x :: _ => .ok x
theorem hd_delib (l) : OnlyRaises Deliberate (hd l) := by
  unfold hd; split
  · exact .error trivial
  · exact .ok _
def two (l : List UInt8) : Except PyErr (UInt8 × UInt8) := do
  let a ← hd l
  let b ← hd l.tail
  if a == 0 then throw .notEnough
  return (a, b)
theorem two_delib (l) : OnlyRaises Deliberate (two l) := by
  unfold two
  refine .bind (hd_delib _) fun a => .bind (hd_delib _) fun b => ?_
  simp only []
  split
  · exact .bind (.throw trivial) fun _ => .pure _
  · exact .pure _
#print axioms two_delib
