-- Spike: exactness of the correctly-rounded quotient when the divisor is small relative to the spare mantissa bits.
-- Core step of `Py.trueDivTrunc_exact`: with sh spare fractional bits and b < 2^(sh+1), rounding a/b to a multiple of 2^-sh
-- (ties either way) and truncating gives a / b.

theorem round_trunc_exact (a b sh : Nat) (hb : 0 < b) (hsmall : b < 2 ^ (sh + 1)) (up : Bool)
    (hup : up = true → b ≤ 2 * ((a * 2 ^ sh) % b)) :           -- a round-up only ever happens when 2r ≥ b
    ((a * 2 ^ sh) / b + (if up then 1 else 0)) / 2 ^ sh = a / b := by
  have hS : 0 < 2 ^ sh := Nat.pow_pos (by omega)
  generalize hSd : 2 ^ sh = S at *
  have h2S : 2 ^ (sh + 1) = 2 * S := by rw [Nat.pow_succ, hSd]; omega
  rw [h2S] at hsmall
  -- a = b*q + ρ
  generalize hq : a / b = q
  generalize hρ : a % b = ρ
  have ha : a = b * q + ρ := by rw [← hq, ← hρ]; exact (Nat.div_add_mod a b).symm
  have hρlt : ρ < b := by rw [← hρ]; exact Nat.mod_lt _ hb
  -- num = ρ*S + b*(q*S)
  have hnum : a * S = ρ * S + b * (q * S) := by
    rw [ha, Nat.add_mul, Nat.mul_assoc]; omega
  have hm : a * S / b = ρ * S / b + q * S := by
    rw [hnum, Nat.add_mul_div_left _ _ hb]
  have hr : a * S % b = ρ * S % b := by
    rw [hnum, Nat.add_mul_mod_self_left]
  generalize ht : ρ * S / b = t at hm
  generalize hu : ρ * S % b = u at hr
  have hdm : b * t + u = ρ * S := by rw [← ht, ← hu]; exact Nat.div_add_mod _ _
  have hρS : ρ * S ≤ (b - 1) * S := Nat.mul_le_mul_right S (by omega)
  have hbS : (b - 1) * S = b * S - S := by rw [Nat.sub_mul, Nat.one_mul]
  have hbS_ge : S ≤ b * S := Nat.le_mul_of_pos_left S hb
  have ht_lt : t < S := by
    apply Classical.byContradiction; intro hc
    have : b * S ≤ b * t := Nat.mul_le_mul_left b (by omega)
    omega
  rw [hm]
  cases up with
  | false =>
    simp only [Bool.false_eq_true, if_false, Nat.add_zero]
    rw [Nat.add_mul_div_right _ _ hS, Nat.div_eq_of_lt ht_lt]; omega
  | true =>
    simp only [if_true]
    have h2u := hup rfl
    rw [hr] at h2u
    -- t + 1 < S, otherwise u ≤ b - S and 2u ≥ b force b ≥ 2S
    have ht1 : t + 1 < S := by
      apply Classical.byContradiction; intro hc
      have hts : t = S - 1 := by omega
      have hbt : b * t = b * S - b := by rw [hts, Nat.mul_sub, Nat.mul_one]
      have hb_le : b ≤ b * S := Nat.le_mul_of_pos_right b hS
      omega
    have : ρ * S / b + q * S + 1 = (t + 1) + q * S := by omega
    rw [ht] at this
    rw [this, Nat.add_mul_div_right _ _ hS, Nat.div_eq_of_lt ht1]; omega
#print axioms round_trunc_exact
