"""Prototype of the kernel extractor (design-phase spike, throwaway).
Extracts the FILETIME / L0 / L1 / L2 expressions from _get_protection_gke_from_cache and emits Lean."""
import ast, sys
src_path = sys.argv[1]
tree = ast.parse(open(src_path).read())
consts = {}
for node in tree.body:
    if isinstance(node, ast.Assign) and len(node.targets) == 1 and isinstance(node.targets[0], ast.Name) \
            and isinstance(node.value, ast.Constant) and isinstance(node.value.value, int):
        consts[node.targets[0].id] = node.value.value
fn = next(n for n in ast.walk(tree) if isinstance(n, ast.FunctionDef) and n.name == "_get_protection_gke_from_cache")

class Unsupported(Exception): pass
def tr(e, env):
    if isinstance(e, ast.Constant) and isinstance(e.value, int): return str(e.value)
    if isinstance(e, ast.Name):
        if e.id in env: return env[e.id]
        if e.id in consts: return str(consts[e.id])
        raise Unsupported(f"name {e.id}")
    if isinstance(e, ast.BinOp):
        a, b = tr(e.left, env), tr(e.right, env)
        op = {ast.Add: "+", ast.Sub: "-", ast.Mult: "*", ast.FloorDiv: "/", ast.Mod: "%"}.get(type(e.op))
        if op: return f"({a} {op} {b})"
        if isinstance(e.op, ast.Div): return f"(Py.trueDiv {a} {b})"
        raise Unsupported(ast.dump(e.op))
    if isinstance(e, ast.Call) and isinstance(e.func, ast.Name) and e.func.id == "int" and len(e.args) == 1:
        inner = e.args[0]
        if isinstance(inner, ast.BinOp) and isinstance(inner.op, ast.Div):
            return f"(Py.trueDivTrunc {tr(inner.left, env)} {tr(inner.right, env)})"
        return tr(inner, env)     # int() of an int expression is the identity
    if isinstance(e, ast.Call) and ast.unparse(e.func) == "time.time_ns" and not e.args: return "timeNs"
    raise Unsupported(ast.unparse(e))

env, out = {}, []
for st in fn.body:
    if isinstance(st, ast.Assign) and isinstance(st.targets[0], ast.Name) and st.targets[0].id in ("current_time", "base", "l0", "l1", "l2"):
        name = st.targets[0].id
        lean = tr(st.value, env)
        out.append((name, lean, ast.unparse(st.value)))
        env[name] = f"({lean})"     # inline earlier kernels so each def is closed over timeNs only
print("-- GENERATED from", src_path, "— do not edit")
print("namespace Gen")
for name, lean, py in out:
    print(f"/-- python: `{name} = {py}` -/")
    print(f"def {name.replace('_','')}K (timeNs : Nat) : Nat := {lean}")
print("end Gen")
