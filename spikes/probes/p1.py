import dpapi_ng._asn1 as a
# C07 integer roundtrip
bad=[]
for v in list(range(-70000,70000,1))+[-(1<<16), -(1<<24), -(1<<16)*3, -16777216, -65536*255]:
    enc=a._pack_asn1_integer(v)
    try:
        dec,_=a._read_asn1_integer(enc)
        if dec!=v: bad.append((v,enc.hex(),dec))
    except Exception as e:
        bad.append((v,enc.hex(),repr(e)))
print(len(bad), bad[:6])
# minimality / correctness vs int.to_bytes
def ref(v):
    n=1
    while True:
        try: return v.to_bytes(n,'big',signed=True)
        except OverflowError: n+=1
import random
r=random.Random(1)
mm=0
for _ in range(200000):
    v=r.randrange(-(1<<r.randrange(1,80)),1<<r.randrange(1,80))
    enc=a._pack_asn1_integer(v)
    body=ref(v)
    if enc[2:]!=body and enc[1]<128: mm+=1; print('MISMATCH',v,enc.hex(),body.hex()); break
print('pack mismatches',mm)
# empty integer / oid
for d in [b'\x02\x00', b'\x06\x00']:
    try:
        r_=a.ASN1Reader(d)
        print(r_.read_integer() if d[0]==2 else r_.read_object_identifier())
    except Exception as e: print(type(e).__name__, e)
# OID
for oid in ["1.2.840.113549.1.7.3","2.999.1","2.40","2.39","3.7","4.0","0.0","1.39.0.128.16384"]:
    try:
        enc=a._pack_asn1_object_identifier(oid); dec,_=a._read_asn1_object_identifier(enc); print(oid, enc.hex(), dec, dec==oid)
    except Exception as e: print(oid, type(e).__name__, e)
