import random, uuid, dataclasses
import dpapi_ng._epm as epm, dpapi_ng._client as c
from dpapi_ng._rpc import *
from dpapi_ng._rpc._client import SyncRpcClient
r=random.Random(11)
def rb(n): return bytes(r.randrange(256) for _ in range(n))
def syn(): return SyntaxId(uuid.UUID(bytes=rb(16)),r.randrange(65536),r.randrange(65536))
# --- VT / commands
f=[]
for i in range(3000):
    cmds=[]
    n=r.randrange(1,5)
    for k in range(n):
        fl=CommandFlags(r.choice([0,0x8000])) | (CommandFlags.SEC_VT_COMMAND_END if k==n-1 else 0)
        t=r.randrange(4)
        if t==0: cmds.append(CommandBitmask(flags=fl,bits=r.randrange(2**32)))
        elif t==1: cmds.append(CommandPContext(flags=fl,interface_id=syn(),transfer_syntax=syn()))
        elif t==2: cmds.append(CommandHeader2(flags=fl,packet_type=r.choice(list(PacketType)),data_rep=DataRep(),call_id=r.randrange(2**32),context_id=r.randrange(65536),opnum=r.randrange(65536)))
        else: cmds.append(Command(CommandType(r.choice([4,5,0x3fff])),fl,rb(r.randrange(0,9))))
    vt=VerificationTrailer(cmds); raw=vt.pack()
    try:
        q=VerificationTrailer.unpack(raw)
        if q.pack()!=raw or len(q.commands)!=n: f.append((vt,q))
    except Exception as e: f.append((vt,repr(e)))
print('VT fails',len(f), f[:1])
# --- EptMap roundtrip + EptMapResult decode of NDR64 reference encoding
def rfloor():
    t=r.randrange(5)
    if t==0: return epm.TCPFloor(r.randrange(65536))
    if t==1: return epm.IPFloor(r.randrange(2**32))
    if t==2: return epm.RPCConnectionOrientedFloor(r.randrange(65536))
    if t==3: return epm.UUIDFloor(uuid.UUID(bytes=rb(16)),r.randrange(65536),r.randrange(65536))
    return epm.Floor(epm.FloorProtocol(r.choice([0x0c,0x1f,0x55,0xff,0x10])),rb(r.randrange(0,6)),rb(r.randrange(0,9)))
def sem(fl):
    if isinstance(fl,epm.TCPFloor): return ('tcp',fl.port)
    if isinstance(fl,epm.IPFloor): return ('ip',fl.addr)
    if isinstance(fl,epm.RPCConnectionOrientedFloor): return ('co',fl.version_minor)
    if isinstance(fl,epm.UUIDFloor): return ('uuid',fl.uuid,fl.version,fl.version_minor)
    return ('raw',int(fl.protocol),fl.lhs,fl.rhs)
def ref_reply(towers,status,handle=None,lastpad='min'):
    out=(handle[0].to_bytes(4,'little')+handle[1].bytes_le) if handle else b'\0'*20
    out+=len(towers).to_bytes(4,'little')
    out+=b'\0'*(-len(out)%8)
    out+=(4).to_bytes(8,'little')+b'\0'*8+len(towers).to_bytes(8,'little')
    for i in range(len(towers)): out+=(i+3).to_bytes(8,'little')
    for i,t in enumerate(towers):
        out+=b'\0'*(-len(out)%8)
        bt=len(t).to_bytes(2,'little')+b''.join(x.pack() for x in t)
        out+=len(bt).to_bytes(8,'little')+len(bt).to_bytes(4,'little')+bt
    out+=b'\0'*(-len(out)%4)
    out+=status.to_bytes(4,'little')
    return out
f=[]; resid=set()
for i in range(4000):
    towers=[[rfloor() for _ in range(r.randrange(0,6))] for _ in range(r.randrange(0,7))]
    for t in towers: resid.add((2+sum(len(x.pack()) for x in t))%8)
    st=r.choice([0,0,0,0x16c9a0d6]); h=r.choice([None,(r.randrange(1,2**32),uuid.UUID(bytes=rb(16)))])
    raw=ref_reply(towers,st,h)
    try:
        q=epm.EptMapResult.unpack(raw)
        if [[sem(x) for x in t] for t in q.towers]!=[[sem(x) for x in t] for t in towers] or q.status!=st or q.entry_handle!=h: f.append((towers,q))
    except Exception as e: f.append((towers,repr(e)))
    m=epm.EptMap(r.choice([None,uuid.UUID(bytes=rb(16))]),towers[0] if towers else [],h,r.randrange(2**32))
    try:
        q=epm.EptMap.unpack(m.pack())
        if q.pack()!=m.pack() or [sem(x) for x in q.tower]!=[sem(x) for x in m.tower] or q.obj!=m.obj or q.entry_handle!=m.entry_handle or q.max_towers!=m.max_towers: f.append(('eptmap',m,q))
    except Exception as e: f.append(('eptmap',m,repr(e)))
print('EPM fails',len(f),'residues',sorted(resid)); print(f[:1])
