import random, uuid, dataclasses, os
import dpapi_ng, dpapi_ng._gkdi as g, dpapi_ng._blob as b, dpapi_ng._client as c
from dpapi_ng._rpc import *
from dpapi_ng._rpc._client import SyncRpcClient
from cryptography.hazmat.primitives import hashes
r=random.Random(13)
def rb(n): return bytes(r.randrange(256) for _ in range(n))
# ---- C13 framing with fake auth
class Sock:
    def __init__(s,reply): s.reply=reply; s.sent=[]
    def sendall(s,b): s.sent.append(bytes(b))
    def recv(s,n): d=s.reply[:n]; s.reply=s.reply[n:]; return d
    def recv_into(s,v): d=s.reply[:len(v)]; s.reply=s.reply[len(d):]; v[:len(d)]=d; return len(d)
class FakeAuth:
    complete=True
    def __init__(s,sig): s.sig=sig; s.calls=[]
    def get_empty_trailer(s,pad): return SecTrailer(SecurityProvider.RPC_C_AUTHN_WINNT,AuthenticationLevel.RPC_C_AUTHN_LEVEL_PKT_PRIVACY,pad,0,b'\0'*s.sig)
    def wrap(s,h,body,t,sh): s.calls.append((h,body,t,sh)); return h+bytes(x^0x55 for x in body)+t+b'S'*s.sig
    def unwrap(s,h,body,t,sig,sh): return bytes(x^0x55 for x in body)
bad=[]
for sig in (16,28,60,76):
  for vt in (None,c._VERIFICATION_TRAILER):
    for n in range(0,120):
        stub=rb(n)
        hdr=PDUHeader(5,0,PacketType.RESPONSE,PacketFlags.PFC_FIRST_FRAG|PacketFlags.PFC_LAST_FRAG,DataRep(),0,sig,1)
        body=b'R'*16
        resp=Response(hdr,SecTrailer(SecurityProvider.RPC_C_AUTHN_WINNT,AuthenticationLevel.RPC_C_AUTHN_LEVEL_PKT_PRIVACY,0,0,b'S'*sig),0,0,0,bytes(x^0x55 for x in body))
        raw=bytearray(resp.pack()); raw[8:10]=len(raw).to_bytes(2,'little')
        a=FakeAuth(sig); s=Sock(bytes(raw)); cl=SyncRpcClient(s,a); cl._sign_header=True
        out=cl.request(0,0,stub,verification_trailer=vt)
        w=s.sent[0]
        fl=int.from_bytes(w[8:10],'little'); al=int.from_bytes(w[10:12],'little')
        trl=len(w)-sig-8
        pad=w[trl+2]
        clear=bytes(x^0x55 for x in w[24:trl])
        exp=stub+((b'\0'*(-n%4)+vt.pack()) if vt else b'')
        ok=(fl==len(w) and al==sig and (trl-24)%16==0 and pad==trl-24-len(exp) and 0<=pad<16 and clear==exp+b'\0'*pad and a.calls[0][0]==w[:24] and a.calls[0][1]==clear and a.calls[0][2]==w[trl:trl+8] and a.calls[0][3] is True and out.stub_data==body)
        if vt: ok = ok and clear[ (n+(-n%4)) : (n+(-n%4))+8]==vt.pack()[:8]
        if not ok: bad.append((sig,bool(vt),n))
print('C13 bad',bad[:5],len(bad))
