import random, uuid, dataclasses, os, itertools
import dpapi_ng, dpapi_ng._gkdi as g, dpapi_ng._blob as b, dpapi_ng._client as c, dpapi_ng._dns as d
from dpapi_ng._rpc import *
from dpapi_ng._rpc._client import SyncRpcClient
from cryptography.hazmat.primitives import hashes
r=random.Random(17)
def rb(n): return bytes(r.randrange(256) for _ in range(n))
# ---- C20
class A: 
    def __init__(s,t,p,w,pr): s.target,s.port,s.weight,s.priority=t,p,w,pr
bad=0
for n in range(1,5):
    for combo in itertools.product([(p,w) for p in range(3) for w in range(3)],repeat=n):
        recs=[A(f'h{i}.dom.'+('' if i%2 else ''),389+i,w,p) for i,(p,w) in enumerate(combo)]
        got=d._get_highest_answer(recs)
        mp=min(p for p,w in combo); mw=max(w for p,w in combo if p==mp)
        if (got.priority,got.weight)!=(mp,mw) or got.target.endswith('.'): bad+=1
print('C20 bad',bad)
# ---- C15 handshake with scripted provider/server
class Prov:
    def __init__(s,outs): s.outs=list(outs); s.i=0; s.ins=[]; s.complete=False
    def step(s,tok=None):
        s.ins.append(tok); out,comp=s.outs[s.i]; s.i+=1; s.complete=comp
        return SecTrailer(SecurityProvider.RPC_C_AUTHN_WINNT,AuthenticationLevel.RPC_C_AUTHN_LEVEL_PKT_PRIVACY,0,0,out)
class Srv:
    def __init__(s,script): s.script=list(script); s.sent=[]; s.buf=b''
    def sendall(s,bts):
        s.sent.append(PDU.unpack(bytes(bts)))
        m=s.script.pop(0); raw=bytearray(m.pack()); raw[8:10]=len(raw).to_bytes(2,'little'); s.buf+=bytes(raw)
    def recv(s,n): o=s.buf[:n]; s.buf=s.buf[n:]; return o
    def recv_into(s,v): o=s.buf[:len(v)]; s.buf=s.buf[len(o):]; v[:len(o)]=o; return len(o)
from dpapi_ng._rpc._pdu import PDU
def ack(cls,pt,results,sign,tok):
    fl=PacketFlags.PFC_FIRST_FRAG|PacketFlags.PFC_LAST_FRAG|(PacketFlags.PFC_SUPPORT_HEADER_SIGN if sign else 0)
    st=SecTrailer(SecurityProvider.RPC_C_AUTHN_WINNT,AuthenticationLevel.RPC_C_AUTHN_LEVEL_PKT_PRIVACY,0,0,tok) if tok else None
    return cls(PDUHeader(5,0,pt,fl,DataRep(),0,len(tok) if tok else 0,1),st,5840,5840,1,'49668',[ContextResult(x,0,uuid.UUID(int=0),0) for x in results])
A_,R_,N_=ContextResultCode.ACCEPTANCE,ContextResultCode.PROVIDER_REJECTION,ContextResultCode.NEGOTIATE_ACK
# 3-leg NTLM-like
prov=Prov([(b'NEG',False),(b'AUTH',True)])
srv=Srv([ack(BindAck,PacketType.BIND_ACK,[A_,N_],True,b'CHAL'),ack(AlterContextResponse,PacketType.ALTER_CONTEXT_RESP,[A_],True,None)])
cl=SyncRpcClient(srv,prov)
res=cl.bind(c._ISD_KEY_CONTEXTS)
print('legs',[type(p).__name__ for p in srv.sent],[p.sec_trailer.auth_value for p in srv.sent], 'ins',prov.ins,'sign',cl._sign_header, 'alter ctxs',[x.context_id for x in srv.sent[1].contexts], [bool(p.header.packet_flags & 4) for p in srv.sent])
# 4 legs with empty final token
prov=Prov([(b'T1',False),(b'T2',False),(b'',True)])
srv=Srv([ack(BindAck,PacketType.BIND_ACK,[A_,N_],False,b'S1'),ack(AlterContextResponse,PacketType.ALTER_CONTEXT_RESP,[A_],False,b'S2')])
cl=SyncRpcClient(srv,prov); cl.bind(c._ISD_KEY_CONTEXTS)
print('legs',[type(p).__name__ for p in srv.sent],[p.sec_trailer.auth_value for p in srv.sent],'ins',prov.ins,'sign',cl._sign_header,[bool(p.header.packet_flags & 4) for p in srv.sent])
# rejected context
prov=Prov([(b'T1',True)]); srv=Srv([ack(BindAck,PacketType.BIND_ACK,[R_,N_],True,None)])
cl=SyncRpcClient(srv,prov); a=cl.bind(c._ISD_KEY_CONTEXTS)
try: c._process_bind_result(c._ISD_KEY_CONTEXTS,a,0); print('rejected ctx accepted!?')
except ValueError as e: print('reject ->',e)
