import random, uuid, dataclasses, os
import dpapi_ng, dpapi_ng._gkdi as g, dpapi_ng._blob as b, dpapi_ng._client as c
from cryptography.hazmat.primitives import hashes
r=random.Random(19)
def rb(n): return bytes(r.randrange(256) for _ in range(n))
rk=uuid.UUID(int=77)
# --- C01 layouts and sizes (nonce mode, 4 hashes)
bad=[]
for h in ("SHA1","SHA256","SHA384","SHA512"):
    cache=dpapi_ng.KeyCache(); cache.load_key(rb(64), rk, kdf_parameters=g.KDFParameters(h).pack())
    for n in (0,1,15,16,17,31,32,33,127,128,4096,65535,65536,70001):
        for sid in ("S-1-5-18","S-1-5-21-0-4294967295-2147483648-1-2-3-4-5-6-7-8-9-10-11","S-1-0-0"):
            pt=rb(n)
            blob=dpapi_ng.ncrypt_protect_secret(pt,sid,root_key_identifier=rk,cache=cache)
            if dpapi_ng.ncrypt_unprotect_secret(blob,cache=cache)!=pt: bad.append(('in',h,n,sid))
            bl=b.DPAPINGBlob.unpack(blob)
            if bl.pack()!=blob: bad.append(('repack',h,n))
            tr=bl.pack(blob_in_envelope=False)
            try:
                if dpapi_ng.ncrypt_unprotect_secret(tr,cache=cache)!=pt: bad.append(('trail',h,n,sid))
                if b.DPAPINGBlob.unpack(tr)!=bl: bad.append(('trail-eq',h,n))
            except Exception as e: bad.append(('trail',h,n,repr(e)))
print('C01/C06 bad',bad[:5],len(bad))
# --- C03 small DH groups with leading zeros: new_kek (public) vs get_kek (seed)
def small_group():
    # p prime < 2^16 with key_length 2..3
    ps=[65521,65519,257,251,4093]
    p=r.choice(ps); gq=r.randrange(2,p-1); return p,gq
bad=[];lz=0;tot=0
for h in ("SHA1","SHA256","SHA384","SHA512"):
  for it in range(300):
    p,gen=small_group(); kl=r.choice([2,3,4])
    seed=rb(64)
    halg=g.KDFParameters(h).hash_algorithm
    priv=g.kdf(halg,seed,g.KDS_SERVICE_LABEL,("DH\0").encode("utf-16-le"),64)
    pub=pow(gen,int.from_bytes(priv,'big'),p)
    common=dict(version=1,l0=361,l1=3,l2=4,root_key_identifier=rk,kdf_algorithm="SP800_108_CTR_HMAC",kdf_parameters=g.KDFParameters(h).pack(),secret_algorithm="DH",secret_parameters=g.FFCDHParameters(kl,p,gen).pack(),private_key_length=512,public_key_length=kl*8,domain_name="d",forest_name="f")
    pubenv=g.GroupKeyEnvelope(flags=1,l1_key=b"",l2_key=g.FFCDHKey(kl,p,gen,pub).pack(),**common)
    seedenv=g.GroupKeyEnvelope(flags=2,l1_key=b"",l2_key=seed,**common)
    kek,kid=pubenv.new_kek()
    kek2=seedenv.get_kek(kid)
    tot+=1
    theirpub=g.FFCDHKey.unpack(kid.key_info).public_key
    if theirpub<256**(kl-1) or pub<256**(kl-1): lz+=1
    if kek!=kek2: bad.append((h,p,gen,kl))
print('C03 DH bad',len(bad),'leading-zero cases',lz,'of',tot)
