import os, sys, tempfile
uf=tempfile.NamedTemporaryFile('w',suffix='.ntlm',delete=False); uf.write("DOM:user:Passw0rd!\n"); uf.close()
os.environ['NTLM_USER_FILE']=uf.name
import spnego, spnego.iov
c=spnego.client("DOM\\user","Passw0rd!",hostname="dc",service="host",protocol="ntlm",context_req=spnego.ContextReq.default|spnego.ContextReq.dce_style)
s=spnego.server(protocol="ntlm",context_req=spnego.ContextReq.default|spnego.ContextReq.dce_style)
t1=c.step(); t2=s.step(t1); t3=c.step(t2); t4=s.step(t3)
print('complete',c.complete,s.complete,'t4',t4, 'sizes',c.query_message_sizes().header)
hdr=b'H'*24; body=b'B'*32; trl=b'T'*8
res=c.wrap_iov([(spnego.iov.BufferType.sign_only,hdr),body,(spnego.iov.BufferType.sign_only,trl),spnego.iov.BufferType.header],encrypt=True,qop=None)
enc=res.buffers[1].data; sig=res.buffers[3].data
print('enc!=body',enc!=body,len(enc),len(sig))
out=s.unwrap_iov([(spnego.iov.BufferType.sign_only,hdr),enc,(spnego.iov.BufferType.sign_only,trl),(spnego.iov.BufferType.header,sig)])
print('server unwrap ok',out.buffers[1].data==body)
# server -> client
res=s.wrap_iov([(spnego.iov.BufferType.sign_only,hdr),body,(spnego.iov.BufferType.sign_only,trl),spnego.iov.BufferType.header],encrypt=True,qop=None)
bad=bytearray(res.buffers[1].data); bad[0]^=1
try:
    c.unwrap_iov([(spnego.iov.BufferType.sign_only,hdr),bytes(bad),(spnego.iov.BufferType.sign_only,trl),(spnego.iov.BufferType.header,res.buffers[3].data)]); print('tamper accepted?!')
except Exception as e: print('tamper rejected',type(e).__name__)
# sys.monitoring
import dpapi_ng._asn1 as a
mon=sys.monitoring; TID=3
mon.use_tool_id(TID,"verif"); cnt=[0]
def on_line(code,line):
    if 'dpapi_ng' in code.co_filename: cnt[0]+=1
    else: return mon.DISABLE
mon.register_callback(TID,mon.events.LINE,on_line); mon.set_events(TID,mon.events.LINE)
a._pack_asn1_integer(-70000)
mon.set_events(TID,0); mon.free_tool_id(TID)
print('line events',cnt[0])
os.unlink(uf.name)
