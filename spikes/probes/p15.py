import dpapi_ng._security_descriptor as sd, dpapi_ng._client as c, time
for s in ["S-1-5-4294967296","S-1-281474976710656-1","S-1-18446744073709551616-1","S-1-5-18\n","S-1-5-١٨","S-1-5-18","S-1-281474976710655-4294967295","S-1-05-018"]:
    try: print(repr(s),'->',sd.sid_to_bytes(s).hex())
    except Exception as e: print(repr(s),'->',type(e).__name__)
# D3 under a scripted clock
Y=368640000000000; EPOCH=116444736000000000
class T:
    def __init__(s,v): s.v=v
    def time_ns(s): return s.v
import uuid, dpapi_ng
from dpapi_ng._blob import DPAPINGBlob
rk=uuid.UUID(int=9); cache=dpapi_ng.KeyCache(); cache.load_key(b'\1'*64, rk)
for d in (1,5,10,11,0,-1):
    t=363*Y-d
    c.time=T((t-EPOCH)*100)
    kid=DPAPINGBlob.unpack(dpapi_ng.ncrypt_protect_secret(b'x','S-1-5-18',root_key_identifier=rk,cache=cache)).key_identifier
    exp=(t//Y,(t//(32*360000000000))%32,(t//360000000000)%32)
    print('d',d,(kid.l0,kid.l1,kid.l2),'expected',exp,'OK' if (kid.l0,kid.l1,kid.l2)==exp else 'WRONG')
c.time=time
