base=360000000000
Y=32*32*base
bad=[]
for k in [363,364,365,400,1000]:
    for d in range(1,40):
        t=k*Y-d
        l0=int(t/Y)
        if l0!=t//Y: bad.append((k,d,l0,t//Y))
print(len(bad), bad[:3], bad[-3:])
# L1, L2 exactness near boundaries
import random
r=random.Random(2)
cnt=0
for _ in range(300000):
    k=r.randrange(0, 400*1024); d=r.randrange(-3,4)
    t=k*base+d
    if t<0: continue
    l1=int((t%(32*32*base))/(32*base)); l2=int((t%(32*base))/base)
    if l1!=(t//(32*base))%32 or l2!=(t//base)%32: cnt+=1
print('l1/l2 mismatches', cnt)
