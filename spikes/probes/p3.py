import uuid, dpapi_ng, dpapi_ng._gkdi as g, dpapi_ng._client as c, dpapi_ng._blob as b
from cryptography.hazmat.primitives import hashes
class Budget(Exception): pass
n=[0]
orig=g.kdf
def counting(*a,**k):
    n[0]+=1
    if n[0]>2000: raise Budget()
    return orig(*a,**k)
g.kdf=counting
rk=uuid.UUID(int=5)
def gke(l1,l2,l1k=b'\x01'*64,l2k=b'\x02'*64,l0=361):
    return g.GroupKeyEnvelope(version=1,flags=2,l0=l0,l1=l1,l2=l2,root_key_identifier=rk,kdf_algorithm="SP800_108_CTR_HMAC",kdf_parameters=g.KDFParameters("SHA512").pack(),secret_algorithm="DH",secret_parameters=b"",private_key_length=512,public_key_length=2048,domain_name="d",forest_name="f",l1_key=l1k,l2_key=l2k)
for (e1,e2,r1,r2) in [(5,5,5,6),(5,5,6,0),(31,31,32,0),(31,31,0,32),(3,31,3,40)]:
    n[0]=0
    try:
        g.compute_l2_key(hashes.SHA512(),r1,r2,gke(e1,e2)); print((e1,e2,r1,r2),'returned',n[0])
    except Budget: print((e1,e2,r1,r2),'exceeded 2000 kdf calls (loop)')
    except Exception as ex: print((e1,e2,r1,r2),type(ex).__name__,ex)
# unprotect with blob whose l1=40 and a root key cache
n[0]=0
cache=dpapi_ng.KeyCache(); cache.load_key(b'\x07'*64, rk)
blob=dpapi_ng.ncrypt_protect_secret(b'hi','S-1-5-21-1-2-3-1104',root_key_identifier=rk,cache=cache)
print(dpapi_ng.ncrypt_unprotect_secret(blob,cache=cache))
bl=b.DPAPINGBlob.unpack(blob)
import dataclasses
for fld,val in [('l1',40),('l2',32),('l0',2**31),('l0',2**32-1)]:
    ki=dataclasses.replace(bl.key_identifier, **{fld:val})
    bl2=dataclasses.replace(bl,key_identifier=ki)
    n[0]=0
    try:
        dpapi_ng.ncrypt_unprotect_secret(bl2.pack(),cache=cache); print(fld,val,'returned')
    except Budget: print(fld,val,'LOOP >2000 kdf')
    except Exception as ex: print(fld,val,type(ex).__name__,ex)
