import uuid, dpapi_ng, dpapi_ng._gkdi as g, dpapi_ng._client as c, dpapi_ng._epm as epm
from dpapi_ng._rpc import VerificationTrailer
import signal
class TO(Exception): pass
def h(*a): raise TO()
signal.signal(signal.SIGALRM,h)
rk=uuid.UUID(int=5)
def gke(l1,l2,l0=361):
    return g.GroupKeyEnvelope(version=1,flags=2,l0=l0,l1=l1,l2=l2,root_key_identifier=rk,kdf_algorithm="SP800_108_CTR_HMAC",kdf_parameters=g.KDFParameters("SHA512").pack(),secret_algorithm="DH",secret_parameters=b"",private_key_length=512,public_key_length=2048,domain_name="d",forest_name="f",l1_key=b'\1'*64,l2_key=b'\2'*64)
cache=dpapi_ng.KeyCache()
cache._store_key(b'sd', gke(5,5))
cache.load_key(b'\x07'*64, rk)
got=cache._get_key(b'sd', rk, 361, 6, 0)
print('C10: asked (6,0), got envelope at', got.l1, got.l2)
# C12 VT loop
signal.alarm(2)
try:
    VerificationTrailer.unpack(b"\x8A\xE3\x13\x71\x02\xF4\x36\x71"); print('VT returned')
except TO: print('C12: VerificationTrailer.unpack loops on missing END')
except Exception as e: print('VT', type(e).__name__, e)
signal.alarm(0)
# C12 EptMapResult roundtrip
def tower(n): return [epm.Floor(epm.FloorProtocol(0x1f), b'', b'x'*n), epm.TCPFloor(49668)]
for n in range(0,9):
    r=epm.EptMapResult(None,[tower(n),tower(n)],0)
    try:
        r2=epm.EptMapResult.unpack(r.pack()); ok=(r2==r)
    except Exception as e: ok=type(e).__name__
    tl=2+5+n+7
    print('tower_len',tl,'roundtrip',ok)
# C18 absurd count
data=b'\0'*20+b'\0'*4+b'\0'*8+b'\0'*8+(2**40).to_bytes(8,'little')+b'\0'*4
signal.alarm(2)
try:
    epm.EptMapResult.unpack(data); print('returned')
except TO: print('C18: EptMapResult.unpack spins on tower_count=2^40, len',len(data))
except Exception as e: print(type(e).__name__, e)
signal.alarm(0)
