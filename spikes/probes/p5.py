import dpapi_ng._epm as epm
def tower(n): return [epm.Floor(epm.FloorProtocol(0x1f), b'', b'x'*n), epm.TCPFloor(49668)]
for k in (1,2,3):
  res=[]
  for n in range(0,9):
    r=epm.EptMapResult(None,[tower(n)]*k,0)
    p=r.pack()
    try:
        r2=epm.EptMapResult.unpack(p); ok=(r2.pack()==p)
    except Exception as e: ok=type(e).__name__
    res.append((2+5+n+7,ok))
  print(k,res)
