import signal, uuid
import dpapi_ng._rpc as rpc
from dpapi_ng._rpc._client import SyncRpcClient
from dpapi_ng._rpc import *
class TO(Exception): pass
def h(*a): raise TO()
signal.signal(signal.SIGALRM,h)
class Sock:
    def __init__(s, chunks): s.chunks=list(chunks); s.sent=[]; s.reads=0
    def sendall(s,b): s.sent.append(bytes(b))
    def _next(s,n):
        s.reads+=1
        if not s.chunks: return b''
        c=s.chunks[0]
        out,rest=c[:n],c[n:]
        if rest: s.chunks[0]=rest
        else: s.chunks.pop(0)
        return out
    def recv(s,n): return s._next(n)
    def recv_into(s,view):
        d=s._next(len(view)); view[:len(d)]=d; return len(d)
hdr=PDUHeader(5,0,PacketType.RESPONSE,PacketFlags.PFC_FIRST_FRAG|PacketFlags.PFC_LAST_FRAG,DataRep(),0,0,1)
resp=Response(hdr,None,8,0,0,b'ABCDEFGH')
b=bytearray(resp.pack()); b[8:10]=len(b).to_bytes(2,'little'); b=bytes(b)
for name,chunks in [('whole',[b]),('split@20',[b[:20],b[20:]]),('split@7',[b[:7],b[7:]]),('eof@20',[b[:20]]),('eof@0',[])]:
    s=Sock(chunks); cl=SyncRpcClient(s)
    signal.alarm(2)
    try:
        r=cl.request(0,0,b'stub'); print(name,'->',r.stub_data)
    except TO: print(name,'-> SPIN (timeout), reads issued',s.reads)
    except Exception as e: print(name,'->',type(e).__name__,e)
    signal.alarm(0)
# C16: cleartext reply accepted on authenticated connection
class FakeAuth:
    complete=True
    def get_empty_trailer(self,pad): return SecTrailer(SecurityProvider.RPC_C_AUTHN_WINNT,AuthenticationLevel.RPC_C_AUTHN_LEVEL_PKT_PRIVACY,pad,0,b'\0'*16)
    def wrap(self,h,body,t,sh): return h+bytes(x^0x55 for x in body)+t+b'S'*16
    def unwrap(self,*a): raise AssertionError('unwrap called')
s=Sock([b]); cl=SyncRpcClient(s,FakeAuth())
r=cl.request(0,0,b'stub'); print('C16 cleartext reply on auth connection accepted ->',r.stub_data)
