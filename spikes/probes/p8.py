import random, uuid, os, dataclasses
import dpapi_ng, dpapi_ng._gkdi as g, dpapi_ng._blob as b, dpapi_ng._epm as epm
from dpapi_ng._rpc import *
from dpapi_ng._rpc._pdu import PDU
r=random.Random(7)
def rb(n): return bytes(r.randrange(256) for _ in range(n))
def rs(n): return ''.join(chr(r.choice([0x41,0x7a,0xe9,0x4e2d,0x1F600,0x30])) for _ in range(n))
fails=[]
# C11 structures
for i in range(3000):
    kl=r.choice([0,1,2,3,32,256]); 
    def ri(): return r.choice([0,1 if kl else 0,r.randrange(256**kl) if kl else 0, (256**kl-1) if kl else 0])
    for x in [g.FFCDHParameters(kl,ri(),ri()), g.FFCDHKey(kl,ri(),ri(),ri()), g.ECDHKey(r.choice(["P256","P384","P521"]),kl,ri(),ri()), g.KDFParameters(rs(r.randrange(0,8)))]:
        try:
            y=type(x).unpack(x.pack())
            if y!=x: fails.append(('C11',x,y))
        except Exception as e: fails.append(('C11',x,repr(e)))
    env=g.GroupKeyEnvelope(version=r.choice([0,1,2**32-1]),flags=r.choice([0,1,2,3]),l0=r.choice([0,361,2**32-1]),l1=r.randrange(32),l2=r.randrange(32),root_key_identifier=uuid.UUID(bytes=rb(16)),kdf_algorithm=rs(r.randrange(0,6)),kdf_parameters=rb(r.randrange(0,9)),secret_algorithm=rs(r.randrange(0,6)),secret_parameters=rb(r.randrange(0,9)),private_key_length=r.choice([0,512,2**32-1]),public_key_length=r.choice([0,2048]),domain_name=rs(r.randrange(0,9)),forest_name=rs(r.randrange(0,9)),l1_key=rb(r.choice([0,1,64])),l2_key=rb(r.choice([0,63,64])))
    try:
        y=g.GroupKeyEnvelope.unpack(env.pack())
        if y!=env: fails.append(('C11env',env,y))
    except Exception as e: fails.append(('C11env',env,repr(e)))
    ki=b.KeyIdentifier(version=1,flags=r.choice([0,1,2,3]),l0=r.choice([0,2**32-1]),l1=r.choice([0,31,2**32-1]),l2=r.randrange(32),root_key_identifier=uuid.UUID(bytes=rb(16)),key_info=rb(r.randrange(0,40)),domain_name=rs(r.randrange(0,7)),forest_name=rs(r.randrange(0,7)))
    try:
        if b.KeyIdentifier.unpack(ki.pack())!=ki: fails.append(('C11ki',ki))
    except Exception as e: fails.append(('C11ki',ki,repr(e)))
    gk=g.GetKey(rb(r.randrange(0,40)), r.choice([None,uuid.UUID(bytes=rb(16))]), r.choice([-1,0,361,2**31-1,-2**31]), r.choice([-1,0,31]), r.choice([-1,0,31]))
    try:
        if g.GetKey.unpack(gk.pack())!=gk: fails.append(('C11gk',gk, g.GetKey.unpack(gk.pack())))
    except Exception as e: fails.append(('C11gk',gk,repr(e)))
print('C11 fails',len(fails)); 
for f in fails[:5]: print(f)
