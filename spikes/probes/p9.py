import random, uuid
import dpapi_ng._gkdi as g, dpapi_ng._epm as epm, dpapi_ng._client as c
from dpapi_ng._rpc import *
from dpapi_ng._rpc._pdu import PDU
r=random.Random(9)
def rb(n): return bytes(r.randrange(256) for _ in range(n))
fails=[]
# --- C11 unpack_response on NDR64 reference reply
def ndr64_reply(env_bytes, hresult=0):
    n=len(env_bytes)
    out=n.to_bytes(4,'little')+b'\0'*4          # pcbOut, pad to 8
    out+=(0x20000).to_bytes(8,'little')          # referent
    out+=n.to_bytes(8,'little')                  # max_count
    out+=env_bytes
    out+=b'\0'*(-len(out)%4)
    out+=hresult.to_bytes(4,'little')
    return out
for n in range(0,40):
    env=g.GroupKeyEnvelope(1,2,361,5,5,uuid.UUID(int=1),"SP800_108_CTR_HMAC",g.KDFParameters("SHA512").pack(),"DH",b"",512,2048,"d"*(n//2),"f",b"\1"*64 if n%2 else b"",b"\2"*64)
    raw=env.pack()+ (b'' )
    got=g.GetKey.unpack_response(ndr64_reply(env.pack()))
    if got!=env: fails.append(('resp',n))
    # via _process_get_key_result with pad
    for pad in range(0,16):
        hdr=PDUHeader(5,0,PacketType.RESPONSE,PacketFlags.PFC_FIRST_FRAG|PacketFlags.PFC_LAST_FRAG,DataRep(),0,16,1)
        st=SecTrailer(SecurityProvider.RPC_C_AUTHN_WINNT,AuthenticationLevel.RPC_C_AUTHN_LEVEL_PKT_PRIVACY,pad,0,b'S'*16)
        resp=Response(hdr,st,0,0,0,ndr64_reply(env.pack())+b'\0'*pad)
        if c._process_get_key_result(resp)!=env: fails.append(('strip',n,pad))
print('C11/C13 reply fails',fails[:5], len(fails))
# --- C12 PDU roundtrips
def hdr(pt,flags=PacketFlags.PFC_FIRST_FRAG|PacketFlags.PFC_LAST_FRAG,auth=0): return PDUHeader(5,r.choice([0,1]),pt,flags,DataRep(),0,auth,r.randrange(2**32))
def syn(): return SyntaxId(uuid.UUID(bytes=rb(16)),r.randrange(65536),r.randrange(65536))
def fin(p, auth):
    raw=bytearray(p.pack()); 
    h=dataclasses.replace(p.header, frag_len=len(raw), auth_len=auth)
    return dataclasses.replace(p, header=h)
import dataclasses
f2=[]
for i in range(4000):
    al=r.choice([0,0,1,16,64]); st=SecTrailer(r.choice(list(SecurityProvider)),r.choice(list(AuthenticationLevel)),r.randrange(16),r.randrange(2**32),rb(al)) if al else None
    kind=r.randrange(8)
    ctxs=[ContextElement(r.randrange(65536),syn(),[syn() for _ in range(r.randrange(0,5))]) for _ in range(r.randrange(0,9))]
    res=[ContextResult(r.choice(list(ContextResultCode)),r.randrange(65536),uuid.UUID(bytes=rb(16)),r.randrange(2**32)) for _ in range(r.randrange(0,7))]
    sa=''.join(r.choice('0123456789ab') for _ in range(r.randrange(0,9)))
    if kind==0: p=Bind(hdr(PacketType.BIND),st,r.randrange(65536),r.randrange(65536),r.randrange(2**32),ctxs)
    elif kind==1: p=AlterContext(hdr(PacketType.ALTER_CONTEXT),st,5840,5840,0,ctxs)
    elif kind==2: p=BindAck(hdr(PacketType.BIND_ACK),st,5840,5840,r.randrange(2**32),sa,res)
    elif kind==3: p=AlterContextResponse(hdr(PacketType.ALTER_CONTEXT_RESP),st,5840,5840,0,sa,res)
    elif kind==4: st=None; al=0; p=BindNak(hdr(PacketType.BIND_NAK),None,r.randrange(65536),[(r.randrange(256),r.randrange(256)) for _ in range(r.randrange(0,5))])
    elif kind==5:
        obj=r.choice([None,uuid.UUID(bytes=rb(16))]); fl=PacketFlags.PFC_FIRST_FRAG|PacketFlags.PFC_LAST_FRAG|(PacketFlags.PFC_OBJECT_UUID if obj else 0)
        p=Request(hdr(PacketType.REQUEST,fl),st,r.randrange(2**32),r.randrange(65536),r.randrange(65536),obj,rb(r.randrange(0,50)))
    elif kind==6: p=Response(hdr(PacketType.RESPONSE),st,r.randrange(2**32),r.randrange(65536),r.randrange(256),rb(r.randrange(0,50)))
    else: p=Fault(hdr(PacketType.FAULT),st,r.randrange(2**32),r.randrange(65536),r.randrange(256),r.randrange(2**32),r.choice(list(FaultFlags)),rb(r.randrange(0,20)))
    p=fin(p,al)
    raw=p.pack()
    try:
        q=PDU.unpack(raw)
        if q!=p or q.pack()!=raw: f2.append((kind,p,q))
    except Exception as e: f2.append((kind,p,repr(e)))
print('C12 pdu fails',len(f2))
for x in f2[:3]: print(x)
